package main

import (
	"encoding/json"
	"fmt"
	"os"
	"os/exec"
	"path/filepath"
	"regexp"
	"strconv"
	"strings"
	"time"
)

// Bounded stand-ins (DESIGN.md 2.11): real-code harnesses for functions that are still trusted externs. They are
// reported under coverage.bounded, never counted in obligations/discharged; a failure is a failing input on the real code.

type boundedResult struct {
	Name      string `json:"name"`
	Bound     string `json:"bound"`
	Sequences int    `json:"sequences"`
	Failures  int    `json:"failures"`
	First     string `json:"first_failure,omitempty"`
	WallS     float64 `json:"wall_s"`
	Note      string `json:"note"`
	Output    string `json:"-"`
}

// which properties run the reopen harness (readMetadata keeps trusted post-conditions in the proofs of these)
var boundedReopenProps = map[string]bool{"C12": true, "C16": true}

const boundedExtra = "S,S,S,P;A,S,S,P;S,W0,S,P,W0;W0,S,W0,G,W5;W0,A,W0,S,G,W5,A;S,G,S,G,W5"

func runBoundedReopen(repo, verif, tier string) *boundedResult {
	src, err := os.ReadFile(filepath.Join(verif, "bounded", "reopen_harness.go.txt"))
	if err != nil {
		return nil
	}
	dir, err := os.MkdirTemp("/var/tmp", "jv-bounded-")
	if err != nil {
		return nil
	}
	defer os.RemoveAll(dir)
	tf := filepath.Join(dir, "zz_bounded_test.go")
	os.WriteFile(tf, src, 0o644)
	ov := map[string]map[string]string{"Replace": {filepath.Join(repo, "replica", "zz_bounded_test.go"): tf}}
	data, _ := json.Marshal(ov)
	of := filepath.Join(dir, "ov.json")
	os.WriteFile(of, data, 0o644)
	bound := "3"
	if tier == "thorough" {
		bound = "4"
	}
	cmd := exec.Command("go", "test", "-tags", "debug", "-overlay", of, "-vet=off", "-count=1", "-timeout", "900s", "-run", "TestZZBoundedReopen", "-v", "./replica")
	cmd.Dir = repo
	cmd.Env = append(os.Environ(), "GOFLAGS=-mod=mod", "GOPROXY=off", "GOSUMDB=off", "GOTOOLCHAIN=local", "ZZ_BOUND="+bound, "ZZ_EXTRA="+boundedExtra)
	t0 := time.Now()
	out, _ := cmd.CombinedOutput()
	res := &boundedResult{Name: "reopen-equivalence (replica.New / Reload after every operation sequence)", Bound: "all sequences of <= " + bound + " operations over {W0,W1,W5,S,A,G,P} plus " + fmt.Sprint(len(strings.Split(boundedExtra, ";"))) + " fixed longer ones",
		WallS: time.Since(t0).Seconds(), Note: "bounded stand-in on the real code for the directory walk readMetadata (post-conditions trusted in the proofs); NOT counted in obligations/discharged", Output: string(out)}
	m := regexp.MustCompile(`BOUNDED-RESULT bound=\d+ sequences=(\d+) failures=(\d+) first="(.*)"`).FindStringSubmatch(string(out))
	if m == nil {
		res.Failures = -1
		res.First = "harness did not run: " + lastLines(string(out), 6)
		return res
	}
	res.Sequences, _ = strconv.Atoi(m[1])
	res.Failures, _ = strconv.Atoi(m[2])
	res.First = m[3]
	return res
}

func lastLines(s string, n int) string {
	ls := strings.Split(strings.TrimSpace(s), "\n")
	if len(ls) > n {
		ls = ls[len(ls)-n:]
	}
	return strings.Join(ls, " | ")
}
