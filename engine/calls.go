package main

// Symbolic executor: calls (builtins, conversions, locks, contracts, inlining, externals).

import (
	"regexp"
	"fmt"
	"go/ast"
	"go/token"
	"go/types"
	"math/big"
	"strings"
)

// packages whose calls have no effect on verified state (dropped by the extraction)
var droppedPkgs = map[string]bool{
	"github.com/sirupsen/logrus":                         true,
	"github.com/openebs/jiva/alertlog":                   true,
	"github.com/prometheus/client_golang/prometheus":     true,
	"log":                                                true,
	"go.uber.org/zap":                                    true,
	"github.com/openebs/sparse-tools/sparse/journal":     true,
}

// jiva packages that are HTTP/exec client glue: never inlined; calls are assumed heap-neutral with
// unconstrained results unless a trusted contract says otherwise (listed in the evidence)
var externalPkgs = map[string]bool{
	jivaMod + "/replica/client":    true,
	jivaMod + "/controller/client": true,
	jivaMod + "/sync/agent":        true,
	jivaMod + "/alertlog":          true,
}

func (e *Engine) staticCallee(info *types.Info, call *ast.CallExpr) *types.Func {
	switch f := call.Fun.(type) {
	case *ast.Ident:
		fn, _ := info.Uses[f].(*types.Func)
		return fn
	case *ast.SelectorExpr:
		if sel := info.Selections[f]; sel != nil {
			if sel.Kind() != types.MethodVal {
				return nil
			}
			fn, _ := sel.Obj().(*types.Func)
			if fn == nil {
				return nil
			}
			if types.IsInterface(sel.Recv()) {
				return nil
			}
			// method promoted from an embedded interface
			if r := fn.Type().(*types.Signature).Recv(); r != nil && types.IsInterface(r.Type()) {
				return nil
			}
			return fn
		}
		fn, _ := info.Uses[f.Sel].(*types.Func)
		return fn
	case *ast.ParenExpr:
		return nil
	}
	return nil
}

func (e *Engine) ifaceContract(recv types.Type, m *types.Func) *FuncContract {
	// try the static interface type, then the interface that declares the method, then embedded ones by name
	try := func(t types.Type) *FuncContract {
		if n := namedOf(t); n != nil {
			if fc := e.cs.Ifaces[typeName(n)+"."+m.Name()]; fc != nil {
				return fc
			}
		}
		return nil
	}
	if fc := try(recv); fc != nil {
		return fc
	}
	if r := m.Type().(*types.Signature).Recv(); r != nil {
		if fc := try(r.Type()); fc != nil {
			return fc
		}
	}
	// any interface contract with this method name whose interface the receiver embeds
	if it, ok := recv.Underlying().(*types.Interface); ok {
		for k, fc := range e.cs.Ifaces {
			if strings.HasSuffix(k, "."+m.Name()) {
				_ = it
				return fc
			}
		}
	}
	return nil
}

func isFatal(fn *types.Func) bool {
	if fn.Pkg() == nil {
		return false
	}
	p := fn.Pkg().Path()
	n := fn.Name()
	if p == "github.com/sirupsen/logrus" || p == "log" {
		return strings.HasPrefix(n, "Fatal") || strings.HasPrefix(n, "Panic")
	}
	if p == "os" && n == "Exit" {
		return true
	}
	return false
}

// evalCall evaluates a call; returns its result values (nWant is advisory).
// evalCall evaluates a call; `option retlog f g ..` of the function under contract records the last result of
// every call to a callee named f (written in the function under contract itself) in the ghost variable retlog_f.
func (fr *Frame) evalCall(st *State, call *ast.CallExpr, nWant int) []*Term {
	rs := fr.evalCall0(st, call, nWant)
	if fr.top != nil && fr.fn == fr.top.fn && fr.fc != nil && fr.fc == fr.top.fc && fr.fc.Options["retlog"] != "" && len(rs) > 0 { // the function itself or one of its closures
		if fn := fr.e.staticCallee(fr.info, call); fn != nil {
			for _, n := range strings.Fields(fr.fc.Options["retlog"]) {
				if n == fn.Name() {
					st.heap["ghost:retlog_"+n] = rs[len(rs)-1]
				}
			}
		}
	}
	return rs
}

func (fr *Frame) evalCall0(st *State, call *ast.CallExpr, nWant int) []*Term {
	e := fr.e
	info := fr.info
	// conversion?
	if tv, ok := info.Types[call.Fun]; ok && tv.IsType() {
		return []*Term{fr.evalConversion(st, call, tv.Type)}
	}
	// builtin?
	if id, ok := call.Fun.(*ast.Ident); ok {
		if b, ok := info.Uses[id].(*types.Builtin); ok {
			return fr.evalBuiltin(st, call, b.Name())
		}
	}
	// immediate closure call (fork/join idiom, deferred closures)
	if fl, ok := call.Fun.(*ast.FuncLit); ok {
		return fr.inlineClosure(st, fl, call)
	}
	fn := e.staticCallee(info, call)
	sig, _ := info.TypeOf(call.Fun).Underlying().(*types.Signature)
	if sig == nil {
		fr.unsupported(call, "call of non-function")
	}
	if fn != nil {
		pkgPath := ""
		if fn.Pkg() != nil {
			pkgPath = fn.Pkg().Path()
		}
		// sync primitives
		if pkgPath == "sync" {
			return fr.evalSyncCall(st, call, fn)
		}
		if isFatal(fn) {
			for _, a := range call.Args {
				fr.evalIgnore(st, a)
			}
			if fr.top.fc != nil && fr.top.fc.Options["nofatal"] != "" {
				e.oblige(fr, st, "nofatal", "", fr.site("nofatal", call), False, call, nil, "process-terminating call "+fn.Name())
			}
			st.Assume(False)
			return fr.freshResults(st, sig, "dead")
		}
		if droppedPkgs[pkgPath] {
			e.dropped[pkgPath] = true
			return fr.freshResults(st, sig, "dropped")
		}
		if pkgPath == "time" && (fn.Name() == "Sleep") {
			e.dropped["time.Sleep"] = true
			return nil
		}
		key := funcKey(fn)
		if rs, ok := fr.streamBuiltin(st, key, call, sig); ok {
			return rs
		}
		var deepEq, deepEqNonEmpty *Term
		if key == "reflect.DeepEqual" && len(call.Args) == 2 {
			// reflect.DeepEqual of two slices of one basic element type: equal lengths and equal elements
			// (nil vs. empty non-nil is not distinguished; stated in the evidence)
			ta, tb := info.TypeOf(call.Args[0]), info.TypeOf(call.Args[1])
			if sa, ok := ta.Underlying().(*types.Slice); ok && types.Identical(ta, tb) {
				if bt, basic := sa.Elem().Underlying().(*types.Basic); basic && bt.Info()&types.IsFloat == 0 && bt.Info()&types.IsComplex == 0 {
					a, b := fr.eval(st, call.Args[0]), fr.eval(st, call.Args[1])
					j := Var("j!de", IntSort)
					deepEq = And(Eq(Acc(a, "len"), Acc(b, "len")),
						Forall([]*Term{j}, Implies(And(Le(IntLit(0), j), Lt(j, Acc(a, "len"))), Eq(Select(Acc(a, "arr"), j), Select(Acc(b, "arr"), j)))))
					deepEqNonEmpty = Gt(Acc(a, "len"), IntLit(0))
					e.assumed["reflect.DeepEqual on []"+sa.Elem().String()+": true implies equal lengths and elements; equal non-empty slices imply true"] = true
				}
			}
		}
		recv, args := fr.evalRecvArgs(st, call, fn, sig)
		if recv != nil {
			if r := fn.Type().(*types.Signature).Recv(); r != nil {
				if _, ptr := r.Type().Underlying().(*types.Pointer); ptr && !isPkgLevelVar(info, call.Fun.(*ast.SelectorExpr).X) {
					// a method with a pointer receiver is entered with a non-nil receiver (the callee's body relies on it);
					// package-level variables (base64.StdEncoding, ...) are assumed initialised
					fr.derefCheck(st, recv, call.Fun)
				}
			}
		}
		if fc := e.cs.Funcs[key]; fc != nil && !(fr.top.fc == fc) && !(fc.Options["inline"] != "" && e.funcs[key] != nil) {
			rs := fr.applyContract(st, fc, fn, sig, recv, args, call)
			if deepEq != nil && len(rs) == 1 {
				st.Assume(Implies(rs[0], deepEq))
				st.Assume(Implies(And(deepEq, deepEqNonEmpty), rs[0]))
			}
			return rs
		}
		if fi := e.funcs[key]; fi != nil && (!externalPkgs[pkgPath] || (fr.fn != nil && fr.fn.Pkg != nil && fr.fn.Pkg.PkgPath == pkgPath)) { // (glue packages are inlined only from their own functions)
			if fc := e.cs.Funcs[key]; fc != nil && fc.Options["inline"] == "" {
				// recursive call of the function under verification: use its contract
				return fr.applyContract(st, fc, fn, sig, recv, args, call)
			}
			return fr.inline(st, fi, recv, args, call)
		}
		// external without contract
		e.assumed[key] = true
		fr.checkCallPre(st, fn, recv, args, call)
		fr.havocSliceArgs(st, call, sig, key)
		return fr.freshResults(st, sig, "x$"+fn.Name())
	}
	// dynamic: interface method or function value
	if selx, ok := call.Fun.(*ast.SelectorExpr); ok {
		if sel := info.Selections[selx]; sel != nil && sel.Kind() == types.MethodVal {
			m := sel.Obj().(*types.Func)
			if typeName(sel.Recv()) == "io.Reader" && m.Name() == "Read" {
				if rs, ok := fr.streamBuiltin(st, "io.Reader.Read", call, sig); ok {
					return rs
				}
			}
			recvLoc := fr.evalLocOrTemp(st, selx.X)
			// walk embedded path to the interface value
			idx := sel.Index()
			var recv *Term
			if len(idx) > 1 {
				l := fr.walkFields(st, fr.baseLoc(st, selx.X), sel.Recv(), idx[:len(idx)-1], call)
				recv = e.load(st, l)
			} else {
				recv = e.load(st, recvLoc)
			}
			var args []*Term
			for i, a := range call.Args {
				args = append(args, fr.evalAs(st, a, paramType(sig, i)))
			}
			// devirtualisation hint
			if fr.top.fc != nil {
				for _, hint := range []string{exprString(call.Fun), m.Name()} {
					if tgt, ok := fr.top.fc.Devirt[hint]; ok {
						fc := e.cs.Funcs[tgt]
						fi := e.funcs[tgt]
						if fi == nil {
							fr.unsupported(call, "devirt target %s not found", tgt)
						}
						tn := typeName(namedOf(fi.Obj.Type().(*types.Signature).Recv().Type()))
						e.oblige(fr, st, "devirt", m.Name(), fr.site("devirt", call), And(Neq(recv, IntLit(0)), Eq(e.typeOf(recv), IntLit(e.tagOf(tn)))), call, nil, "dynamic type of "+exprString(selx.X)+" is *"+tn)
						if fc != nil {
							return fr.applyContract(st, fc, fi.Obj, fi.Obj.Type().(*types.Signature), recv, args, call)
						}
						return fr.inline(st, fi, recv, args, call)
					}
				}
			}
			if fc := e.ifaceContract(sel.Recv(), m); fc != nil {
				return fr.applyContract(st, fc, m, sig, recv, args, call)
			}
			e.assumed["(interface) "+typeName(sel.Recv())+"."+m.Name()] = true
			return fr.freshResults(st, sig, "x$"+m.Name())
		}
	}
	// function value
	if id, ok := call.Fun.(*ast.Ident); ok && fr.top.fc != nil && len(fr.top.fc.CallPre[id.Name]) > 0 {
		// call-site clauses may name a function-typed parameter or variable
		var args []*Term
		for i, a := range call.Args {
			args = append(args, fr.evalAs(st, a, paramType(sig, i)))
		}
		for i, c := range fr.top.fc.CallPre[id.Name] {
			if len(c.Params) != len(args) {
				continue
			}
			b := map[string]*SVal{}
			for j, p := range c.Params {
				b[p] = &SVal{T: args[j], Ty: paramType(sig, j)}
			}
			g := fr.top.evalSpecBool(st, c.Expr, b, fr.top.entry)
			name := c.Name
			if name == "" {
				name = fmt.Sprintf("%d", i+1)
			}
			e.oblige(fr, st, "callpre:"+id.Name+"#"+name, "", fr.site("callpre", call), g, call, c, "")
			st.Assume(g)
		}
		e.note("call through function value %s: results unconstrained, no heap effect assumed", exprString(call.Fun))
		return fr.freshResults(st, sig, "fv")
	}
	for _, a := range call.Args {
		fr.evalIgnore(st, a)
	}
	if selx, ok := call.Fun.(*ast.SelectorExpr); ok && fr.top.fc != nil && fr.top.fc.Options["fvlog"] != "" {
		// `option fvlog`: calls through function-valued fields are recorded by field name (fvN, fvName)
		n := e.Heap(st, "ghost:fvN", IntSort)
		names := e.Heap(st, "ghost:fvName", ArrSort(IntSort, StrSort))
		st.heap["ghost:fvName"] = Store(names, n, e.strLit(selx.Sel.Name))
		st.heap["ghost:fvN"] = Add(n, IntLit(1))
	}
	e.note("call through function value %s: results unconstrained, no heap effect assumed", exprString(call.Fun))
	return fr.freshResults(st, sig, "fv")
}

// readOnlySliceFuncs: externals known not to write through their slice arguments.
var readOnlySliceFuncs = map[string]bool{
	"strings.Join": true, "bytes.Equal": true, "bytes.Compare": true, "encoding/hex.EncodeToString": true,
	"encoding/json.Unmarshal": true, "os.WriteFile": true, "io/ioutil.WriteFile": true,
	"os.File.Write": true, "os.File.WriteAt": true, "syscall.Write": true, "syscall.Pwrite": true,
	"strings.Contains": true, "hash/crc32.ChecksumIEEE": true, "crypto/sha1.Sum": true,
	"encoding/binary.littleEndian.Uint64": true, "encoding/binary.littleEndian.Uint32": true,
}

// havocSliceArgs: a callee without contract may write through any slice argument. The contents of every
// slice-typed argument that names a location become unknown (length kept). The sort functions are known
// (trusted, listed) to permute: every new element is some old element.
func (fr *Frame) havocSliceArgs(st *State, call *ast.CallExpr, sig *types.Signature, key string) {
	e := fr.e
	if readOnlySliceFuncs[key] || strings.HasPrefix(key, "fmt.") || strings.HasPrefix(key, "strconv.") {
		return
	}
	perm := key == "sort.SliceStable" || key == "sort.Slice" || key == "sort.Strings" || key == "sort.Sort" || key == "sort.Stable"
	for _, a := range call.Args {
		t := fr.info.TypeOf(a)
		if t == nil {
			continue
		}
		if _, ok := t.Underlying().(*types.Slice); !ok {
			continue
		}
		base := ast.Unparen(a)
		if sx, ok := base.(*ast.SliceExpr); ok {
			base = ast.Unparen(sx.X)
		}
		switch base.(type) {
		case *ast.Ident, *ast.SelectorExpr:
		default:
			continue
		}
		bt := fr.info.TypeOf(base)
		if bt == nil {
			continue
		}
		if _, ok := bt.Underlying().(*types.Slice); !ok {
			continue
		}
		l := fr.evalLoc(st, base)
		old := e.load(st, l)
		na := Fresh("ext$"+exprString(base), old.S.Fields[0].S)
		nv := Ctor(old.S, na, Acc(old, "len"))
		if perm {
			j := Var("j!p", IntSort)
			m := Var("m!p", IntSort)
			n := Acc(old, "len")
			st.Assume(Forall([]*Term{j}, Implies(And(Le(IntLit(0), j), Lt(j, n)),
				Exists([]*Term{m}, And(Le(IntLit(0), m), Lt(m, n), Eq(Select(na, j), Select(Acc(old, "arr"), m))))), []*Term{Select(na, j)}))
		}
		e.store(st, l, nv)
		e.note("external %s without contract: contents of slice argument %s havocked%s", key, exprString(base), map[bool]string{true: " (permutation assumed)", false: ""}[perm])
	}
}

func (fr *Frame) evalIgnore(st *State, x ast.Expr) {
	defer func() {
		if r := recover(); r != nil {
			if _, ok := r.(subsetErr); !ok {
				panic(r)
			}
		}
	}()
	fr.eval(st, x)
}

func paramType(sig *types.Signature, i int) types.Type {
	n := sig.Params().Len()
	if sig.Variadic() && i >= n-1 {
		return sig.Params().At(n - 1).Type().(*types.Slice).Elem()
	}
	if i < n {
		return sig.Params().At(i).Type()
	}
	return nil
}

func (fr *Frame) freshResults(st *State, sig *types.Signature, hint string) []*Term {
	var out []*Term
	for i := 0; i < sig.Results().Len(); i++ {
		t := sig.Results().At(i).Type()
		pre := "r$"
		if strings.HasPrefix(hint, "x$") {
			pre, hint = "rx$", hint[2:]
		}
		v := Fresh(pre+hint, fr.e.sortOf(t))
		st.Assume(fr.e.typeFacts(v, t, st))
		out = append(out, v)
	}
	return out
}

// evalRecvArgs evaluates receiver (as the callee sees it) and arguments of a static call.
func (fr *Frame) evalRecvArgs(st *State, call *ast.CallExpr, fn *types.Func, sig *types.Signature) (*Term, []*Term) {
	e := fr.e
	var recv *Term
	fsig := fn.Type().(*types.Signature)
	if r := fsig.Recv(); r != nil {
		selx := call.Fun.(*ast.SelectorExpr)
		sel := fr.info.Selections[selx]
		_, wantPtr := r.Type().Underlying().(*types.Pointer)
		idx := sel.Index()
		var loc *Loc
		xt := fr.info.TypeOf(selx.X)
		if len(idx) > 1 {
			loc = fr.walkFields(st, fr.baseLoc(st, selx.X), sel.Recv(), idx[:len(idx)-1], call)
			xt = loc.T
		}
		_, havePtr := xt.Underlying().(*types.Pointer)
		switch {
		case wantPtr && havePtr:
			if loc != nil {
				recv = e.load(st, loc)
			} else {
				recv = fr.eval(st, selx.X)
			}
		case wantPtr && !havePtr:
			if loc == nil {
				loc = fr.evalLocOrTemp(st, selx.X)
			}
			switch loc.Kind {
			case LObj:
				recv = loc.Ref
			case LHeap:
				recv = e.subRefIn(st, loc.Owner, loc.Field, loc.Ref)
			default:
				// struct value in a local: box a copy (writes by the callee are lost -> flagged)
				ref := e.alloc(st, xt, "recv")
				e.storeObj(st, ref, xt, e.load(st, loc))
				e.note("pointer-receiver call on a local struct value at %s: callee effects on the receiver are not copied back", e.pos(call))
				recv = ref
			}
		case !wantPtr && havePtr:
			var p *Term
			if loc != nil {
				p = e.load(st, loc)
			} else {
				p = fr.eval(st, selx.X)
			}
			if isStructVal(r.Type()) {
				recv = e.loadObj(st, p, r.Type())
			} else {
				recv = p
			}
		default:
			if loc != nil {
				recv = e.load(st, loc)
			} else {
				recv = fr.eval(st, selx.X)
			}
		}
	}
	var args []*Term
	np := fsig.Params().Len()
	if fsig.Variadic() {
		// pack variadic arguments
		for i := 0; i < np-1; i++ {
			args = append(args, fr.evalAs(st, call.Args[i], fsig.Params().At(i).Type()))
		}
		vt := fsig.Params().At(np - 1).Type()
		if call.Ellipsis != token.NoPos {
			args = append(args, fr.eval(st, call.Args[np-1]))
		} else {
			s := e.sortOf(vt)
			arr := Fresh("va", s.Fields[0].S)
			var a *Term = arr
			cnt := 0
			for i := np - 1; i < len(call.Args); i++ {
				ok := true
				func() {
					defer func() {
						if r := recover(); r != nil {
							if _, isS := r.(subsetErr); !isS {
								panic(r)
							}
							ok = false
						}
					}()
					a = Store(a, IntLit(int64(cnt)), fr.evalAs(st, call.Args[i], vt.(*types.Slice).Elem()))
				}()
				_ = ok
				cnt++
			}
			args = append(args, Ctor(s, a, IntLit(int64(cnt))))
		}
	} else if len(call.Args) == 1 && np > 1 {
		args = fr.evalMulti(st, call.Args[0], np)
	} else {
		for i, a := range call.Args {
			args = append(args, fr.evalAs(st, a, fsig.Params().At(i).Type()))
		}
	}
	return recv, args
}

func (fr *Frame) evalConversion(st *State, call *ast.CallExpr, to types.Type) *Term {
	e := fr.e
	from := fr.info.TypeOf(call.Args[0])
	v := fr.eval(st, call.Args[0])
	ts := e.sortOf(to)
	if ts == v.S {
		if ts == IntSort {
			if _, _, ok := intRange(to); ok {
				if _, _, ok2 := intRange(from); ok2 {
					return fr.convInt(st, v, from, to, call)
				}
			}
		}
		return v
	}
	// []byte(string), string([]byte), numeric<->float etc: uninterpreted conversion
	name := "conv$" + smtIdent(v.S.Name) + "$" + smtIdent(ts.Name)
	DeclFunc(name, ts, v.S)
	r := App(name, v)
	fr.assumeTypeFacts(st, r, to)
	return r
}

func (fr *Frame) convInt(st *State, v *Term, from, to types.Type, n ast.Node) *Term {
	flo, fhi, _ := intRange(from)
	tlo, thi, _ := intRange(to)
	a, _ := lit(flo).IntVal()
	b, _ := lit(fhi).IntVal()
	c, _ := lit(tlo).IntVal()
	d, _ := lit(thi).IntVal()
	if a.Cmp(c) >= 0 && b.Cmp(d) <= 0 {
		return v // widening
	}
	if _, isLit := v.IntVal(); isLit {
		return v
	}
	// narrowing / sign change: exact two's-complement semantics
	width := new(big.Int).Sub(d, c)
	width.Add(width, big.NewInt(1))
	m := mk("mod", IntSort, v, BigLit(width))
	if c.Sign() == 0 {
		return m
	}
	// signed target: if m > hi then m - 2^n
	return Ite(Gt(m, lit(thi)), Sub(m, BigLit(width)), m)
}

func (fr *Frame) evalBuiltin(st *State, call *ast.CallExpr, name string) []*Term {
	e := fr.e
	switch name {
	case "len", "cap":
		t := fr.info.TypeOf(call.Args[0])
		v := fr.eval(st, call.Args[0])
		switch t.Underlying().(type) {
		case *types.Slice:
			if name == "cap" {
				c := Fresh("cap", IntSort)
				st.Assume(Ge(c, Acc(v, "len")))
				return []*Term{c}
			}
			return []*Term{Acc(v, "len")}
		case *types.Map:
			st.Assume(Implies(Eq(Acc(v, "card"), IntLit(0)), Eq(Acc(v, "dom"), ConstArr(v.S.Fields[1].S, False))))
			{
				// at most one key: any two keys in the domain are equal
				ks := v.S.Fields[1].S.K
				a, b := Var("a!c1", ks), Var("b!c1", ks)
				st.Assume(Implies(Le(Acc(v, "card"), IntLit(1)), Forall([]*Term{a, b},
					Implies(And(Select(Acc(v, "dom"), a), Select(Acc(v, "dom"), b)), Eq(a, b)), []*Term{Select(Acc(v, "dom"), a), Select(Acc(v, "dom"), b)})))
			}
			return []*Term{Acc(v, "card")}
		case *types.Basic:
			l := fr.strLen(v)
			st.Assume(Ge(l, IntLit(0)))
			return []*Term{l}
		case *types.Array:
			return []*Term{IntLit(t.Underlying().(*types.Array).Len())}
		case *types.Chan:
			c := Fresh("chanlen", IntSort)
			st.Assume(Ge(c, IntLit(0)))
			return []*Term{c}
		}
		fr.unsupported(call, "len of %s", t)
	case "append":
		t := fr.info.TypeOf(call.Args[0])
		s := fr.eval(st, call.Args[0])
		et := t.Underlying().(*types.Slice).Elem()
		if call.Ellipsis != token.NoPos {
			o := fr.eval(st, call.Args[1])
			if o.S != s.S {
				// append([]byte, string...)
				fr.unsupported(call, "append of %s...", o.S)
			}
			na := Fresh("app", s.S.Fields[0].S)
			j := Var("j!a", IntSort)
			st.Assume(Forall([]*Term{j}, Eq(Select(na, j), Ite(Lt(j, Acc(s, "len")), Select(Acc(s, "arr"), j), Select(Acc(o, "arr"), Sub(j, Acc(s, "len"))))), []*Term{Select(na, j)}))
			if pat := Select(Acc(o, "arr"), Var("j!b", IntSort)); pat.Op == "select" && !strings.Contains(pat.String(), "as const") {
				j2 := Var("j!b", IntSort)
				st.Assume(Forall([]*Term{j2}, Implies(Ge(j2, IntLit(0)), Eq(Select(na, Add(j2, Acc(s, "len"))), Select(Acc(o, "arr"), j2))), []*Term{pat}))
			}
			return []*Term{Ctor(s.S, na, Add(Acc(s, "len"), Acc(o, "len")))}
		}
		arr := Acc(s, "arr")
		n := Acc(s, "len")
		for _, a := range call.Args[1:] {
			prev := arr
			arr = Store(arr, n, fr.evalAs(st, a, et))
			// array-theory tautology stated with a trigger on the old array: lets the solver carry
			// witnesses found in the old slice over to the appended one
			if !strings.Contains(prev.String(), "as const") {
				j := Var("j!p", IntSort)
				st.Assume(Forall([]*Term{j}, Implies(Neq(j, n), Eq(mk("select", arr.S.V, arr, j), Select(prev, j))), []*Term{Select(prev, j)}))
			}
			n = Add(n, IntLit(1))
		}
		return []*Term{Ctor(s.S, arr, n)}
	case "make":
		t := fr.info.TypeOf(call.Args[0])
		switch u := t.Underlying().(type) {
		case *types.Slice:
			s := e.sortOf(t)
			n := fr.eval(st, call.Args[1])
			e.oblige(fr, st, "makelen", "", fr.site("makelen", call), Ge(n, IntLit(0)), call, nil, "make length")
			return []*Term{Ctor(s, ConstArr(s.Fields[0].S, e.zeroValue(u.Elem())), n)}
		case *types.Map:
			s := e.sortOf(t)
			m := Ctor(s, Fresh("mk", s.Fields[0].S), ConstArr(s.Fields[1].S, False), IntLit(0))
			st.Assume(Not(e.isNilMap(m)))
			return []*Term{m}
		case *types.Chan:
			ch := e.alloc(st, t, "chan")
			// ghost: buffer capacity of the new channel (0 when unbuffered)
			capT := IntLit(0)
			if len(call.Args) > 1 {
				capT = fr.eval(st, call.Args[1])
			}
			caps := e.Heap(st, "ghost:chanCap", ArrSort(IntSort, IntSort))
			st.heap["ghost:chanCap"] = Store(caps, ch, capT)
			return []*Term{ch}
		}
	case "delete":
		mt := fr.info.TypeOf(call.Args[0]).Underlying().(*types.Map)
		l := fr.evalLoc(st, call.Args[0])
		fr.guardedWrite(st, l, call)
		m := e.load(st, l)
		k := fr.evalAs(st, call.Args[1], mt.Key())
		inDom := Select(Acc(m, "dom"), k)
		st.Assume(Implies(inDom, Ge(Acc(m, "card"), IntLit(1))))
		nm := Ctor(m.S, Acc(m, "val"), Store(Acc(m, "dom"), k, False), Ite(inDom, Sub(Acc(m, "card"), IntLit(1)), Acc(m, "card")))
		e.store(st, l, nm)
		return nil
	case "copy":
		// copy(dst, src): geometry only: n = min(len(dst), len(src)); dst[0:n] = src[0:n]
		dl := fr.evalLocOrTemp(st, call.Args[0])
		d := e.load(st, dl)
		s := fr.eval(st, call.Args[1])
		if s.S != d.S {
			r := Fresh("copied", IntSort)
			st.Assume(And(Ge(r, IntLit(0)), Le(r, Acc(d, "len"))))
			na := Fresh("cp", d.S.Fields[0].S)
			e.store(st, dl, Ctor(d.S, na, Acc(d, "len")))
			return []*Term{r}
		}
		n := Ite(Lt(Acc(d, "len"), Acc(s, "len")), Acc(d, "len"), Acc(s, "len"))
		na := Fresh("cp", d.S.Fields[0].S)
		j := Var("j!c", IntSort)
		st.Assume(Forall([]*Term{j}, Eq(Select(na, j), Ite(And(Le(IntLit(0), j), Lt(j, n)), Select(Acc(s, "arr"), j), Select(Acc(d, "arr"), j))), []*Term{Select(na, j)}))
		e.store(st, dl, Ctor(d.S, na, Acc(d, "len")))
		e.note("assumption: copy(dst, src) updates the named destination only (slice aliasing is not modelled)")
		return []*Term{n}
	case "panic":
		for _, a := range call.Args {
			fr.evalIgnore(st, a)
		}
		e.oblige(fr, st, "nopanic", "", fr.site("nopanic", call), False, call, nil, "explicit panic")
		st.Assume(False)
		return nil
	case "new":
		t := fr.info.TypeOf(call.Args[0])
		ref := e.alloc(st, t, "new")
		if isStructVal(t) {
			e.storeObj(st, ref, t, e.zeroValue(t))
		}
		return []*Term{ref}
	case "print", "println":
		return nil
	case "min", "max":
		a := fr.eval(st, call.Args[0])
		b := fr.eval(st, call.Args[1])
		if name == "min" {
			return []*Term{Ite(Lt(a, b), a, b)}
		}
		return []*Term{Ite(Gt(a, b), a, b)}
	case "close":
		fr.evalIgnore(st, call.Args[0])
		return nil
	}
	fr.unsupported(call, "builtin %s", name)
	return nil
}

// ---------------------------------------------------------------------------
// sync.* : lock typestate, lock invariants; WaitGroup/Once are no-ops

func (fr *Frame) evalSyncCall(st *State, call *ast.CallExpr, fn *types.Func) []*Term {
	e := fr.e
	sig := fn.Type().(*types.Signature)
	rt := namedOf(sig.Recv().Type())
	if rt == nil {
		return fr.freshResults(st, sig, "sync")
	}
	tn := rt.Obj().Name()
	if tn == "WaitGroup" {
		fr.evalWaitGroupCall(st, call, fn)
		return fr.freshResults(st, sig, "sync")
	}
	if tn != "Mutex" && tn != "RWMutex" {
		if tn == "Once" && fn.Name() == "Do" {
			fr.unsupported(call, "sync.Once.Do")
		}
		return fr.freshResults(st, sig, "sync")
	}
	selx := call.Fun.(*ast.SelectorExpr)
	sel := fr.info.Selections[selx]
	idx := sel.Index()
	var loc *Loc
	if len(idx) > 1 {
		loc = fr.walkFields(st, fr.baseLoc(st, selx.X), sel.Recv(), idx[:len(idx)-1], call)
	} else {
		loc = fr.evalLoc(st, selx.X)
	}
	if loc.Kind != LHeap {
		// local mutex (fork/join helper): no typestate
		return nil
	}
	key := loc.Ref.String() + "#" + loc.Owner + "." + loc.Field.Name()
	li := e.findLockInv(loc.Owner, loc.Field.Name())
	op := fn.Name()
	switch op {
	case "Lock", "RLock":
		_, held := st.locks[key]
		e.oblige(fr, st, "lock-free", shortKey(loc.Owner)+"."+loc.Field.Name(), fr.site("lock", call), BoolLit(!held), call, nil, op+" while this goroutine already holds the lock (self-deadlock)")
		mode := "W"
		if op == "RLock" {
			mode = "R"
		}
		st.locks[key] = mode
		st.nlock++
		if li != nil {
			fr.havocProtected(st, li)
			fr.assumeLockInv(st, li, loc.Ref)
			if fr.top.lockedKeys == nil {
				fr.top.lockedKeys = map[string]bool{}
			}
			for k := range fr.e.protectedKeys(li) {
				fr.top.lockedKeys[k] = true
			}
		}
		st.addSnap(fmt.Sprintf("lock%d", st.nlock))
		if fr.top.fc != nil {
			for _, c := range fr.top.fc.Assumes[fmt.Sprintf("lock%d", st.nlock)] {
				st.Assume(fr.top.evalSpecBool(st, c.Expr, nil, fr.top.entry))
			}
		}
	case "Unlock", "RUnlock":
		mode, held := st.locks[key]
		want := "W"
		if op == "RUnlock" {
			want = "R"
		}
		e.oblige(fr, st, "unlock-held", shortKey(loc.Owner)+"."+loc.Field.Name(), fr.site("unlock", call), BoolLit(held && mode == want), call, nil, op+" of a lock that is not held (fatal error: sync: Unlock of unlocked RWMutex)")
		if li != nil && held && mode == "W" {
			fr.checkLockInv(st, li, loc.Ref, call)
		}
		delete(st.locks, key)
	case "TryLock", "TryRLock":
		return fr.freshResults(st, sig, "trylock")
	}
	return nil
}

func (e *Engine) findLockInv(owner, field string) *LockInv {
	for _, li := range e.cs.Locks {
		if li.PkgPath+"."+li.RecvType == owner && li.Mutex == field {
			return li
		}
	}
	return nil
}

// protectedKeys expands a LockInv's protects list to heap keys.
func (e *Engine) protectedKeys(li *LockInv) map[string]*Sort {
	out := map[string]*Sort{}
	pkg := e.pkgs[li.PkgPath]
	if pkg == nil {
		return out
	}
	for _, it := range li.Protects {
		it = strings.TrimSuffix(it, "~")
		parts := strings.Split(it, ".")
		if len(parts) != 2 {
			continue
		}
		obj := pkg.Types.Scope().Lookup(parts[0])
		if obj == nil {
			e.note("stale-contract: protects item %s: no type %s", it, parts[0])
			continue
		}
		st, ok := obj.Type().Underlying().(*types.Struct)
		if !ok {
			continue
		}
		owner := typeName(obj.Type())
		found := false
		for i := 0; i < st.NumFields(); i++ {
			f := st.Field(i)
			if parts[1] == "*" || f.Name() == parts[1] {
				found = true
				if isSyncType(f.Type()) {
					continue
				}
				ms := &modSet{heap: out}
				e.addFieldMods(owner+"."+f.Name(), f, ms)
			}
		}
		if !found {
			e.note("stale-contract: protects item %s: no such field", it)
		}
	}
	return out
}

func (fr *Frame) havocProtected(st *State, li *LockInv) {
	for k, s := range fr.e.protectedKeys(li) {
		st.heap[k] = Fresh("H$"+shortKey(k), s)
	}
}

func (fr *Frame) lockBindings(li *LockInv, ref *Term) map[string]*SVal {
	pkg := fr.e.pkgs[li.PkgPath]
	obj := pkg.Types.Scope().Lookup(li.RecvType)
	return map[string]*SVal{li.RecvName: {T: ref, Ty: types.NewPointer(obj.Type())}}
}

func (fr *Frame) assumeLockInv(st *State, li *LockInv, ref *Term) {
	b := fr.lockBindings(li, ref)
	for _, c := range li.Inv {
		st.Assume(fr.evalSpecBoolPkg(st, c.Expr, b, nil, li.PkgPath))
	}
}

func (fr *Frame) checkLockInv(st *State, li *LockInv, ref *Term, n ast.Node) {
	if fr.top.fc != nil && fr.top.fc.Options["constructing"] != "" {
		// `option constructing`: the receiver is still being built and not yet shared; the lock invariant is what the
		// function establishes on success (stated as its post-condition), not something its error exits owe anybody
		fr.e.note("%s runs on an object under construction (option constructing): lock invariants are not required at its unlocks", shortKey(fr.top.fn.Key))
		return
	}
	b := fr.lockBindings(li, ref)
	if fr.top.fc != nil {
		// `assume unlock: expr`: a listed assumption about the state in which the lock is released
		for _, c := range fr.top.fc.Assumes["unlock"] {
			st.Assume(fr.top.evalSpecBool(st, c.Expr, nil, fr.top.entry))
		}
	}
	for i, c := range li.Inv {
		name := c.Name
		if name == "" {
			name = fmt.Sprintf("%d", i+1)
		}
		g := fr.evalSpecBoolPkg(st, c.Expr, b, nil, li.PkgPath)
		detail := ""
		if st.retOrd > 0 && fr.top.deferredUnlock {
			detail = fmt.Sprintf("ret#%d", st.retOrd) // deferred Unlock: one obligation key per return statement
		}
		fr.e.oblige(fr, st, "lockinv."+name, detail, fr.site("unlock", n), g, n, c, "")
	}
}

// guardedWrite: a write to a lock-protected field requires the lock (in W mode).
func (fr *Frame) guardedWrite(st *State, l *Loc, n ast.Node) {
	if fr.top.fc != nil && fr.top.fc.Options["constructing"] != "" {
		return // objects under construction are not shared yet (see checkLockInv)
	}
	if l == nil || l.Kind != LHeap {
		if l != nil && (l.Kind == LIndex || l.Kind == LField) {
			fr.guardedWrite(st, l.Base, n)
		}
		return
	}
	key := fr.e.fieldKey(l.Owner, l.Field)
	for _, li := range fr.e.cs.Locks {
		if _, ok := fr.e.protectedKeys(li)[key]; !ok || fr.e.weaklyProtected(li, key) {
			continue
		}
		held := false
		suffix := "#" + li.PkgPath + "." + li.RecvType + "." + li.Mutex
		for k, m := range st.locks {
			if strings.HasSuffix(k, suffix) && m == "W" {
				held = true
			}
		}
		fr.e.oblige(fr, st, "guarded", shortKey(key), fr.site("guarded", n), BoolLit(held), n, nil, "write to "+shortKey(key)+" without holding "+li.RecvType+"."+li.Mutex)
	}
}

// ---------------------------------------------------------------------------
// Contracts at call sites

type calleeNames struct {
	recv    string
	params  []string
	ptypes  []types.Type
	results []string
	rtypes  []types.Type
	recvT   types.Type
}

func (e *Engine) namesOf(fc *FuncContract, fn *types.Func, sig *types.Signature) *calleeNames {
	cn := &calleeNames{}
	fsig := fn.Type().(*types.Signature)
	if r := fsig.Recv(); r != nil {
		cn.recv = r.Name()
		cn.recvT = r.Type()
		if fc.RecvName != "" && (cn.recv == "" || cn.recv == "_" || fc.Trusted) {
			cn.recv = fc.RecvName
		}
	}
	for i := 0; i < fsig.Params().Len(); i++ {
		p := fsig.Params().At(i)
		nm := p.Name()
		if (nm == "" || nm == "_" || fc.Trusted) && i < len(fc.Params) && fc.Params[i].Name != "" {
			nm = fc.Params[i].Name
		}
		cn.params = append(cn.params, nm)
		cn.ptypes = append(cn.ptypes, p.Type())
	}
	for i := 0; i < fsig.Results().Len(); i++ {
		r := fsig.Results().At(i)
		nm := r.Name()
		if (nm == "" || nm == "_" || fc.Trusted) && i < len(fc.Results) && fc.Results[i].Name != "" {
			nm = fc.Results[i].Name
		}
		cn.results = append(cn.results, nm)
		cn.rtypes = append(cn.rtypes, r.Type())
	}
	return cn
}

func (cn *calleeNames) bind(recv *Term, args, results []*Term) map[string]*SVal {
	b := map[string]*SVal{}
	if cn.recv != "" && recv != nil {
		b[cn.recv] = &SVal{T: recv, Ty: cn.recvT}
		b["this"] = b[cn.recv]
	}
	for i, p := range cn.params {
		if i < len(args) && p != "" {
			b[p] = &SVal{T: args[i], Ty: cn.ptypes[i]}
		}
	}
	for i, r := range cn.results {
		if i >= len(results) {
			break
		}
		sv := &SVal{T: results[i], Ty: cn.rtypes[i]}
		if r != "" {
			b[r] = sv
		}
		b[fmt.Sprintf("result%d", i)] = sv
		if len(cn.results) == 1 {
			b["result"] = sv
		}
	}
	return b
}

func (fr *Frame) applyContract(st *State, fc *FuncContract, fn *types.Func, sig *types.Signature, recv *Term, args []*Term, call *ast.CallExpr) []*Term {
	e := fr.e
	fc.used = true
	if !fc.Trusted && e.funcs[fc.Key] != nil && fr.top != nil && fr.top.fn != nil && fr.top.fn.Key != fc.Key {
		if e.deps == nil {
			e.deps = map[string]map[string]bool{}
		}
		if e.deps[fr.top.fn.Key] == nil {
			e.deps[fr.top.fn.Key] = map[string]bool{}
		}
		e.deps[fr.top.fn.Key][fc.Key] = true
	}
	cn := e.namesOf(fc, fn, sig)
	pkgPath := ""
	if fn.Pkg() != nil {
		pkgPath = fn.Pkg().Path()
	}
	if fi := e.funcs[fc.Key]; fi != nil {
		pkgPath = fi.Pkg.PkgPath
	} else if fr.fn != nil && e.pkgs[pkgPath] == nil {
		pkgPath = fr.fn.Pkg.PkgPath
	}
	short := shortKey(fc.Key)
	// a callee that acquires its receiver's lock must not be called with that lock held (self-deadlock)
	if fi := e.funcs[fc.Key]; fi != nil && recv != nil {
		if fld := e.acquiresRecvLock(fi); fld != "" {
			if n := namedOf(fi.Obj.Type().(*types.Signature).Recv().Type()); n != nil {
				key := recv.String() + "#" + typeName(n) + "." + fld
				_, held := st.locks[key]
				e.oblige(fr, st, "lock-free", shortKey(typeName(n))+"."+fld, fr.site("lock", call), BoolLit(!held), call, nil, "call of "+short+", which acquires this lock, while it is already held (self-deadlock)")
			}
		}
	}
	b := cn.bind(recv, args, nil)
	// caller-side call preconditions ("every call X(...) requires")
	fr.checkCallPre(st, fn, recv, args, call)
	for i, c := range fc.Requires {
		if hk, ok := heldClause(c.Expr); ok {
			fr.checkHeld(st, hk, b, pkgPath, call, short)
			continue
		}
		g := fr.evalSpecBoolPkg(st, c.Expr, b, nil, pkgPath)
		name := c.Name
		if name == "" {
			name = fmt.Sprintf("%d", i+1)
		}
		e.oblige(fr, st, "pre:"+short+"#"+name, "", fr.site("call", call), g, call, c, "")
	}
	old := st.Clone()
	// havoc modifies
	if fc.Options["noframe"] != "" {
		// the callee's frame is not checked: assume nothing survives the call
		keep := map[string]*Term{}
		if fr.top.fc != nil {
			// `option stableghost g..`: listed assumption that un-framed callees of this function leave ghost g alone
			for _, g := range strings.Fields(fr.top.fc.Options["stableghost"]) {
				setsIt := false
				for _, sc := range fc.Sets {
					if sc.Name == g {
						setsIt = true // the callee's own contract assigns this ghost: it is not "left alone"
					}
				}
				if setsIt {
					continue
				}
				if v, ok := st.heap["ghost:"+g]; ok {
					keep["ghost:"+g] = v
				} else if gv, ok := e.cs.Vars[g]; ok {
					c := &specCtx{e: e, pkgPath: gv.PkgPath}
					srt, _ := c.sortOfTypeStr(gv.Type)
					keep["ghost:"+g] = e.Heap(st, "ghost:"+g, srt)
				}
			}
		}
		e.havocAll(st)
		for k, v := range keep {
			st.heap[k] = v
		}
	}
	for _, m := range fc.Modifies {
		fr.havocModItem(st, m, b, pkgPath, call)
	}
	var results []*Term
	freshRes := map[string]bool{}
	for _, n := range strings.Fields(fc.Options["fresh"]) {
		freshRes[n] = true
	}
	for i := 0; i < sig.Results().Len(); i++ {
		t := sig.Results().At(i).Type()
		v := Fresh("r$"+fn.Name(), e.sortOf(t))
		if i < len(cn.results) && freshRes[cn.results[i]] {
			// `option fresh <result>`: a non-nil result is a newly allocated object
			al := e.Heap(st, "$alloc", ArrSort(IntSort, BoolSort))
			st.Assume(Ge(v, IntLit(0)))
			st.Assume(Implies(Neq(v, IntLit(0)), Not(Select(al, v))))
			st.heap["$alloc"] = Store(al, v, True)
		} else {
			st.Assume(e.typeFacts(v, t, st))
		}
		results = append(results, v)
	}
	b = cn.bind(recv, args, results)
	callerSnaps := st.snaps
	st.snaps = map[string]*State{} // the callee's at(label, ..) states are not visible here: such clauses are dropped
	if fr.top.fc != nil && fr.top.fc.Options["constructing"] != "" && recv != nil && old != nil {
		// the caller runs on an object that is not shared yet (option constructing): nothing changes the object
		// between the call and the callee's first lock acquisition when that acquisition is the callee's first
		// statement, so the callee's at(lock1, ..) is the state at the call
		if fi := e.funcs[fc.Key]; fi != nil && fi.Decl.Body != nil && len(fi.Decl.Body.List) > 0 {
			if es, ok := fi.Decl.Body.List[0].(*ast.ExprStmt); ok {
				if ce, ok := es.X.(*ast.CallExpr); ok {
					if sel, ok := ce.Fun.(*ast.SelectorExpr); ok && (sel.Sel.Name == "Lock" || sel.Sel.Name == "RLock") {
						if id, ok := sel.X.(*ast.Ident); ok && fi.Decl.Recv != nil && len(fi.Decl.Recv.List) == 1 && len(fi.Decl.Recv.List[0].Names) == 1 && fi.Decl.Recv.List[0].Names[0].Name == id.Name {
							st.snaps["lock1"] = old
						}
					}
				}
			}
		}
	}
	for _, c := range fc.Ensures {
		if localLogRe.MatchString(c.Text) {
			continue // a clause over the callee's own call/result log says nothing about the caller's log
		}
		func() {
			defer func() {
				if r := recover(); r != nil {
					if se, ok := r.(specErr); ok && (strings.Contains(se.msg, "label not reached") || strings.Contains(se.msg, "unresolved name")) {
						return // clause about the callee's internal labels/locals: not usable at a call site
					}
					panic(r)
				}
			}()
			st.Assume(fr.evalSpecBoolPkg(st, c.Expr, b, old, pkgPath))
		}()
	}
	st.snaps = callerSnaps
	if fc.Options["noreturn"] != "" {
		st.Assume(False)
	}
	return results
}

// localLogRe: names of the function-local ghost logs (option calllog / fvlog / retlog, WaitGroup counters)
var localLogRe = regexp.MustCompile(`\b(callN|callName|callArg0|callArg1|fvN|fvName|retlog_[A-Za-z0-9_]+|wgcount)\b`)

func heldClause(x *SExpr) (*SExpr, bool) {
	if x.Kind == "call" && x.Name == "held" && len(x.Args) == 1 {
		return x.Args[0], true
	}
	return nil, false
}

// lockKeyOf computes the typestate key of the mutex of the object denoted by spec expr x.
func (fr *Frame) lockKeyOf(st *State, x *SExpr, b map[string]*SVal, pkgPath string) (string, *LockInv) {
	// held(TypeName): some instance of that type's lock is held (for helpers of objects the lock protects)
	if x.Kind == "id" {
		if _, bound := b[x.Name]; !bound {
			for _, li := range fr.e.cs.Locks {
				if li.RecvType == x.Name && (li.PkgPath == pkgPath || pkgPath == "") {
					return "*#" + li.PkgPath + "." + li.RecvType + "." + li.Mutex, li
				}
			}
		}
	}
	sv := fr.evalSpecPkg(st, x, b, nil, pkgPath)
	n := namedOf(sv.Ty)
	if n == nil {
		panic(subsetErr{"held(): argument is not a named struct pointer"})
	}
	owner := typeName(n)
	for _, li := range fr.e.cs.Locks {
		if li.PkgPath+"."+li.RecvType == owner {
			return sv.T.String() + "#" + owner + "." + li.Mutex, li
		}
	}
	// default: an embedded RWMutex / Mutex field
	if stt, ok := n.Underlying().(*types.Struct); ok {
		for i := 0; i < stt.NumFields(); i++ {
			if isSyncType(stt.Field(i).Type()) {
				return sv.T.String() + "#" + owner + "." + stt.Field(i).Name(), nil
			}
		}
	}
	panic(subsetErr{"held(): no mutex in " + owner})
}

func (fr *Frame) checkHeld(st *State, x *SExpr, b map[string]*SVal, pkgPath string, n ast.Node, callee string) {
	key, _ := fr.lockKeyOf(st, x, b, pkgPath)
	m, held := st.locks[key]
	if strings.HasPrefix(key, "*#") {
		for k, mm := range st.locks {
			if strings.HasSuffix(k, key[1:]) && mm == "W" {
				m, held = mm, true
			}
		}
	}
	fr.e.oblige(fr, st, "pre:"+callee+"#held", "", fr.site("call", n), BoolLit(held && m == "W"), n, nil, "callee requires the lock to be held")
}

func (fr *Frame) checkCallPre(st *State, fn *types.Func, recv *Term, args []*Term, call *ast.CallExpr) {
	if fr.top.fc == nil || fr.fn != fr.top.fn {
		return // call-site preconditions constrain the calls written in the function under contract (and its closures)
	}
	defer fr.logCall(st, fn, args)
	cps := fr.top.fc.CallPre[fn.Name()]
	if len(cps) == 0 {
		return
	}
	sig := fn.Type().(*types.Signature)
	for i, c := range cps {
		if len(c.Params) != len(args) {
			continue // a clause for a different callee of the same name (other arity)
		}
		b := map[string]*SVal{}
		for j, p := range c.Params {
			if j < len(args) {
				b[p] = &SVal{T: args[j], Ty: sig.Params().At(j).Type()}
			}
		}
		name := c.Name
		if name == "" {
			name = fmt.Sprintf("%d", i+1)
		}
		g, why := fr.top.trySpecBoolB(st, c, b)
		if g == nil {
			// the clause names something the function no longer has: the obligation cannot be established any more
			// (it is reported as failed, with the reason, rather than stopping the whole function)
			fr.e.note("stale-clause: %s callpre %s#%s `%s` cannot be evaluated (%s)", shortKey(fr.top.fn.Key), fn.Name(), name, c.Text, why)
			fr.e.oblige(fr, st, "callpre:"+fn.Name()+"#"+name, "", fr.site("callpre", call), False, call, c, "clause no longer resolves: "+why)
			continue
		}
		fr.e.oblige(fr, st, "callpre:"+fn.Name()+"#"+name, "", fr.site("callpre", call), g, call, c, "")
		// checked, then available to what follows (also lets a call-site clause serve as a proof hint)
		st.Assume(g)
	}
}

// logCall: `option calllog f g ..` records the calls of the named callees written in the function under
// contract in the ghost log (callN, callName[k], callArg0[k], callArg1[k]: integer/reference arguments), after
// the call-site clauses of that call were checked.
func (fr *Frame) logCall(st *State, fn *types.Func, args []*Term) {
	want := false
	for _, n := range strings.Fields(fr.top.fc.Options["calllog"]) {
		if n == fn.Name() {
			want = true
		}
	}
	if !want {
		return
	}
	e := fr.e
	n := e.Heap(st, "ghost:callN", IntSort)
	names := e.Heap(st, "ghost:callName", ArrSort(IntSort, StrSort))
	st.heap["ghost:callName"] = Store(names, n, e.strLit(fn.Name()))
	k := 0
	for _, a := range args {
		if a.S != IntSort || k > 1 {
			continue
		}
		key := fmt.Sprintf("ghost:callArg%d", k)
		arr := e.Heap(st, key, ArrSort(IntSort, IntSort))
		st.heap[key] = Store(arr, n, a)
		k++
	}
	st.heap["ghost:callN"] = Add(n, IntLit(1))
}

// ---------------------------------------------------------------------------
// Inlining

func (fr *Frame) inline(st *State, fi *FuncInfo, recv *Term, args []*Term, call *ast.CallExpr) []*Term {
	e := fr.e
	if fr.depth > 14 {
		fr.unsupported(call, "needs-contract: inlining depth exceeded at %s", shortKey(fi.Key))
	}
	for p := fr; p != nil; p = p.parent {
		if p.fn == fi && !p.inClosure {
			fr.unsupported(call, "needs-contract: recursive call of %s", shortKey(fi.Key))
		}
	}
	e.prepFunc(fi)
	fr.checkCallPre(st, fi.Obj, recv, args, call)
	nf := &Frame{e: e, fn: fi, info: fi.Pkg.TypesInfo, parent: fr, depth: fr.depth + 1, top: fr.top, entry: fr.entry}
	sig := fi.Obj.Type().(*types.Signature)
	if r := sig.Recv(); r != nil && r.Name() != "" && r.Name() != "_" {
		nf.recvVar = r
		st.vars[r] = recv
	}
	for i := 0; i < sig.Params().Len(); i++ {
		p := sig.Params().At(i)
		if fi.boxed[p] {
			nf.bindBoxed(st, p, args[i])
			continue
		}
		st.vars[p] = args[i]
	}
	nf.results = resultVars(fi, sig)
	for _, rv := range nf.results {
		st.vars[rv] = e.zeroValue(rv.Type())
	}
	base := len(st.defers)
	outs := nf.execBlock(st, fi.Decl.Body.List)
	var rets []*State
	for _, o := range outs {
		switch o.kind {
		case oNormal, oReturn:
			rets = append(rets, nf.runDefers(o.st, base)...)
		default:
			fr.unsupported(call, "control flow escapes inlined %s", shortKey(fi.Key))
		}
	}
	e.forceMerge = true
	rets = e.mergeAll(rets)
	e.forceMerge = false
	if len(rets) == 0 {
		st.Assume(False)
		return fr.freshResults(st, sig, "dead")
	}
	if len(rets) > 1 {
		fr.unsupported(call, "needs-contract: return states of %s cannot be merged (different lock/defer state)", shortKey(fi.Key))
	}
	*st = *rets[0]
	var res []*Term
	for _, rv := range nf.results {
		res = append(res, st.vars[rv])
	}
	return res
}

func resultVars(fi *FuncInfo, sig *types.Signature) []*types.Var {
	var out []*types.Var
	for i := 0; i < sig.Results().Len(); i++ {
		r := sig.Results().At(i)
		if r.Name() == "" || r.Name() == "_" {
			out = append(out, types.NewVar(fi.Decl.Pos(), fi.Pkg.Types, fmt.Sprintf("result%d", i), r.Type()))
		} else {
			out = append(out, r)
		}
	}
	return out
}

// runDefers executes the deferred calls registered above base (LIFO).
func (fr *Frame) runDefers(st *State, base int) []*State {
	cur := []*State{st}
	for {
		var next []*State
		progressed := false
		for _, s := range cur {
			if len(s.defers) <= base {
				next = append(next, s)
				continue
			}
			progressed = true
			d := s.defers[len(s.defers)-1]
			s.defers = s.defers[:len(s.defers)-1]
			d.fr.evalCall(s, d.call, 0)
			if !s.Infeasible() {
				next = append(next, s)
			}
		}
		cur = next
		if !progressed {
			break
		}
	}
	return cur
}

// execDetachedClosure runs the body of a function literal on a copy of the state with arbitrary
// arguments; only the obligations it generates are kept.
func (fr *Frame) execDetachedClosure(st *State, fl *ast.FuncLit) {
	e := fr.e
	sig := fr.info.TypeOf(fl).(*types.Signature)
	s2 := st.Clone()
	nf := &Frame{e: e, fn: fr.fn, info: fr.info, fc: fr.fc, parent: fr, depth: fr.depth + 1, top: fr.top, entry: fr.entry, inClosure: true, labels: fr.labels}
	for i := 0; i < sig.Params().Len(); i++ {
		p := sig.Params().At(i)
		v := Fresh("cp$"+p.Name(), e.sortOf(p.Type()))
		s2.Assume(e.typeFacts(v, p.Type(), s2))
		s2.vars[p] = v
	}
	var results []*types.Var
	for i := 0; i < sig.Results().Len(); i++ {
		r := sig.Results().At(i)
		if r.Name() == "" {
			results = append(results, types.NewVar(fl.Pos(), nil, fmt.Sprintf("cres%d", i), r.Type()))
		} else {
			results = append(results, r)
		}
	}
	nf.results = results
	for _, rv := range results {
		s2.vars[rv] = e.zeroValue(rv.Type())
	}
	base := len(s2.defers)
	for _, o := range nf.execBlock(s2, fl.Body.List) {
		if o.kind == oNormal || o.kind == oReturn {
			nf.runDefers(o.st, base)
		}
	}
}

func (fr *Frame) inlineClosure(st *State, fl *ast.FuncLit, call *ast.CallExpr) []*Term {
	e := fr.e
	sig := fr.info.TypeOf(fl).(*types.Signature)
	nf := &Frame{e: e, fn: fr.fn, info: fr.info, fc: fr.fc, parent: fr, depth: fr.depth + 1, top: fr.top, entry: fr.entry, inClosure: true, labels: fr.labels}
	for i := 0; i < sig.Params().Len(); i++ {
		p := sig.Params().At(i)
		st.vars[p] = fr.evalAs(st, call.Args[i], p.Type())
	}
	var results []*types.Var
	for i := 0; i < sig.Results().Len(); i++ {
		r := sig.Results().At(i)
		if r.Name() == "" {
			results = append(results, types.NewVar(fl.Pos(), nil, fmt.Sprintf("cres%d", i), r.Type()))
		} else {
			results = append(results, r)
		}
	}
	nf.results = results
	for _, rv := range results {
		st.vars[rv] = e.zeroValue(rv.Type())
	}
	// goroutine closure (`go func(){..}()`) in a module whose Go version has one loop variable per loop (< 1.22): a
	// loop variable read inside the goroutine has whatever value the loop has reached when the goroutine runs
	saved := map[*types.Var]*Term{}
	if e.inGoStmt && e.sharedLoopVars {
		e.inGoStmt = false
		for _, lv := range e.loopVars {
			if cur, ok := st.vars[lv]; ok && usesVar(fr.info, fl.Body, lv) {
				saved[lv] = cur
				nv := Fresh("racy$"+lv.Name(), e.sortOf(lv.Type()))
				st.Assume(e.typeFacts(nv, lv.Type(), st))
				st.vars[lv] = nv
				e.note("goroutine closure at %s reads loop variable %s (go.mod: one variable per loop): its value there is arbitrary", e.pos(fl), lv.Name())
			}
		}
	}
	base := len(st.defers)
	outs := nf.execBlock(st, fl.Body.List)
	var rets []*State
	for _, o := range outs {
		switch o.kind {
		case oNormal, oReturn:
			rets = append(rets, nf.runDefers(o.st, base)...)
		default:
			fr.unsupported(call, "control flow escapes closure")
		}
	}
	e.forceMerge = true
	rets = e.mergeAll(rets)
	e.forceMerge = false
	if len(rets) == 0 {
		st.Assume(False)
		return fr.freshResults(st, sig, "dead")
	}
	if len(rets) > 1 {
		fr.unsupported(call, "closure return states cannot be merged")
	}
	*st = *rets[0]
	for lv, cur := range saved {
		st.vars[lv] = cur
	}
	var res []*Term
	for _, rv := range results {
		res = append(res, st.vars[rv])
	}
	return res
}

// bindBoxed binds an address-taken parameter: it lives in a fresh heap cell.
func (fr *Frame) bindBoxed(st *State, p *types.Var, val *Term) {
	e := fr.e
	ref := e.alloc(st, p.Type(), p.Name())
	st.vars[p] = ref
	if isStructVal(p.Type()) {
		e.storeObj(st, ref, p.Type(), val)
	} else {
		e.store(st, e.cellLoc(ref, p.Type()), val)
	}
}

// weaklyProtected: the key comes only from protects items marked `~` (re-read at Lock, but also written
// under the read lock by design, e.g. the block map under Replica.RLock)
func (e *Engine) weaklyProtected(li *LockInv, key string) bool {
	strong := &LockInv{RecvName: li.RecvName, RecvType: li.RecvType, Mutex: li.Mutex, PkgPath: li.PkgPath}
	for _, it := range li.Protects {
		if !strings.HasSuffix(it, "~") {
			strong.Protects = append(strong.Protects, it)
		}
	}
	_, ok := e.protectedKeys(strong)[key]
	return !ok
}

// acquiresRecvLock: does fi's body call Lock/RLock on a sync mutex field of its own receiver? Returns the field name.
func (e *Engine) acquiresRecvLock(fi *FuncInfo) string {
	if fi.acqLock != nil {
		return *fi.acqLock
	}
	res := ""
	sig := fi.Obj.Type().(*types.Signature)
	if r := sig.Recv(); r != nil && fi.Decl.Body != nil {
		info := fi.Pkg.TypesInfo
		ast.Inspect(fi.Decl.Body, func(n ast.Node) bool {
			call, ok := n.(*ast.CallExpr)
			if !ok {
				return true
			}
			selx, ok := call.Fun.(*ast.SelectorExpr)
			if !ok || (selx.Sel.Name != "Lock" && selx.Sel.Name != "RLock") {
				return true
			}
			id, ok := selx.X.(*ast.Ident)
			if !ok || info.ObjectOf(id) != r {
				return true
			}
			sel := info.Selections[selx]
			if sel == nil || len(sel.Index()) < 2 {
				return true
			}
			if fn, ok := sel.Obj().(*types.Func); ok && fn.Pkg() != nil && fn.Pkg().Path() == "sync" {
				// embedded mutex field name
				t := sel.Recv()
				if p, ok := t.Underlying().(*types.Pointer); ok {
					t = p.Elem()
				}
				if stt, ok := t.Underlying().(*types.Struct); ok {
					res = stt.Field(sel.Index()[0]).Name()
				}
			}
			return true
		})
	}
	fi.acqLock = &res
	return res
}

// usesVar: does the syntax tree mention the variable?
func usesVar(info *types.Info, n ast.Node, v *types.Var) bool {
	found := false
	ast.Inspect(n, func(x ast.Node) bool {
		if id, ok := x.(*ast.Ident); ok && info.Uses[id] == v {
			found = true
		}
		return !found
	})
	return found
}

// isPkgLevelVar: the expression names a package-level variable (possibly qualified).
func isPkgLevelVar(info *types.Info, x ast.Expr) bool {
	var id *ast.Ident
	switch y := ast.Unparen(x).(type) {
	case *ast.Ident:
		id = y
	case *ast.SelectorExpr:
		id = y.Sel
	}
	if id == nil {
		return false
	}
	v, ok := info.Uses[id].(*types.Var)
	return ok && v.Pkg() != nil && v.Parent() == v.Pkg().Scope()
}

// ---------------------------------------------------------------------------
// sync.WaitGroup of the fork/join idiom. `go func(){..}()` is executed in place, so the counter of a WaitGroup that
// is a local variable of the function under contract (and whose address is not handed out) is tracked exactly:
// Add(n) adds, Done() needs a positive counter (a negative counter panics) and subtracts one, Wait() needs the
// counter to be zero - otherwise some Add is never matched by a Done and Wait blocks for ever.
// The counter is the function-local ghost wg$<name>, `wgcount(<name>)` in loop invariants.

func wgGhostKey(name string) string { return "ghost:wg$" + name }

// wgLocalName: the name of the local WaitGroup variable a call `wg.M(..)` is made on ("" if it is not one).
func wgLocalName(info *types.Info, call *ast.CallExpr) string {
	sel, ok := call.Fun.(*ast.SelectorExpr)
	if !ok {
		return ""
	}
	id, ok := sel.X.(*ast.Ident)
	if !ok {
		return ""
	}
	v, ok := info.ObjectOf(id).(*types.Var)
	if !ok || v.IsField() || v.Pkg() == nil || v.Parent() == v.Pkg().Scope() {
		return ""
	}
	if n := namedOf(v.Type()); n == nil || n.Obj().Name() != "WaitGroup" || n.Obj().Pkg() == nil || n.Obj().Pkg().Path() != "sync" {
		return ""
	}
	if _, ptr := v.Type().Underlying().(*types.Pointer); ptr {
		return ""
	}
	return id.Name
}

// wgAddressTaken: does the function hand out &name (then some other function may call Done: not tracked)?
func wgAddressTaken(fi *FuncInfo, name string) bool {
	taken := false
	ast.Inspect(fi.Decl, func(n ast.Node) bool {
		if u, ok := n.(*ast.UnaryExpr); ok && u.Op == token.AND {
			if id, ok := u.X.(*ast.Ident); ok && id.Name == name {
				taken = true
			}
		}
		return true
	})
	return taken
}

func (fr *Frame) wgCount(st *State, name string) *Term {
	if v, ok := st.heap[wgGhostKey(name)]; ok {
		return v
	}
	return IntLit(0)
}

func (fr *Frame) evalWaitGroupCall(st *State, call *ast.CallExpr, fn *types.Func) {
	e := fr.e
	for _, a := range call.Args {
		_ = a
	}
	name := wgLocalName(fr.info, call)
	if name == "" || fr.top == nil || fr.top.fc == nil || fr.fn != fr.top.fn || wgAddressTaken(fr.top.fn, name) {
		for _, a := range call.Args {
			fr.evalIgnore(st, a)
		}
		if name == "" || fr.top == nil || fr.top.fn == nil || fr.fn != fr.top.fn {
			return
		}
		e.dropped["sync.WaitGroup "+name+" of "+shortKey(fr.top.fn.Key)+": its address is handed out, counter not tracked"] = true
		return
	}
	cur := fr.wgCount(st, name)
	switch fn.Name() {
	case "Add":
		st.heap[wgGhostKey(name)] = Add(cur, fr.eval(st, call.Args[0]))
	case "Done":
		e.oblige(fr, st, "wg-balance", name, fr.site("wg", call), Ge(cur, IntLit(1)), call, nil, "WaitGroup "+name+": Done() without a matching Add (negative counter panics)")
		st.heap[wgGhostKey(name)] = Sub(cur, IntLit(1))
	case "Wait":
		e.oblige(fr, st, "wg-balance", name, fr.site("wg", call), Eq(cur, IntLit(0)), call, nil, "WaitGroup "+name+": every Add is matched by the Done of a goroutine started before Wait (otherwise Wait blocks for ever)")
		st.Assume(Eq(cur, IntLit(0)))
	}
}
