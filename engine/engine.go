package main

// Engine: package loading, Go type -> sort mapping, symbolic state, locations.

import (
	"strconv"
	"fmt"
	"go/ast"
	"go/token"
	"go/types"
	"os"
	"path/filepath"
	"sort"
	"strings"

	"golang.org/x/tools/go/packages"
)

const jivaMod = "github.com/openebs/jiva"

type FuncInfo struct {
	Key   string
	Decl  *ast.FuncDecl
	Pkg   *packages.Package
	Obj   *types.Func
	loops map[ast.Node]int // loop ordinal (1-based, syntactic order)
	rets  map[ast.Node]int // return statement ordinal (1-based, syntactic order)
	boxed map[*types.Var]bool
	acqLock *string
	renames map[string]string // contract name -> current name of a local renamed since the baseline
}

type Engine struct {
	repo    string
	fset    *token.FileSet
	pkgs    map[string]*packages.Package
	funcs   map[string]*FuncInfo
	byObj   map[*types.Func]*FuncInfo
	cs      *ContractSet
	obls    []*Obligation
	notes   []string          // out-of-subset / needs-contract / assumptions gathered during execution
	assumed map[string]bool   // external functions treated as pure-unknown
	dropped map[string]bool   // calls dropped by extraction (logging etc.)
	strLits map[string]*Term
	tagIDs  map[string]int64
	deps    map[string]map[string]bool // function under contract -> verified callees whose contracts it used
	curFn   string
	verbose bool
	forceMerge bool
	elemPtrs   map[string]*elemPtr // element pointers (&s[i]) by reference name
	inGoStmt       bool         // the call being evaluated is the operand of a go statement
	sharedLoopVars bool         // go.mod language version < 1.22: one variable per loop
	loopVars       []*types.Var // loop variables of the loops being executed (innermost last)
	noMerge    bool // `option nomerge` of the function under verification
	assignedFields map[string]bool // heap keys of struct fields assigned somewhere in the loaded packages (others are set only by composite literals: immutable)
}

func NewEngine(repo string) *Engine {
	return &Engine{repo: repo, pkgs: map[string]*packages.Package{}, funcs: map[string]*FuncInfo{}, byObj: map[*types.Func]*FuncInfo{},
		assumed: map[string]bool{}, dropped: map[string]bool{}, strLits: map[string]*Term{}, tagIDs: map[string]int64{}}
}

var jivaPkgs = []string{"replica", "controller", "rpc", "sync", "util", "controller/rest", "replica/rest", "backend/remote", "app", "types", "replica/rpc", "replica/client", "controller/client", "backend/dynamic", "sync/agent"}

func (e *Engine) Load() error {
	e.fset = token.NewFileSet()
	// language version of the module: before Go 1.22 a loop has one variable shared by all iterations
	e.sharedLoopVars = true
	if data, err := os.ReadFile(filepath.Join(e.repo, "go.mod")); err == nil {
		for _, ln := range strings.Split(string(data), "\n") {
			f := strings.Fields(ln)
			if len(f) == 2 && f[0] == "go" {
				parts := strings.Split(f[1], ".")
				if len(parts) >= 2 {
					maj, _ := strconv.Atoi(parts[0])
					min, _ := strconv.Atoi(parts[1])
					e.sharedLoopVars = maj < 1 || (maj == 1 && min < 22)
				}
			}
		}
	}
	cfg := &packages.Config{
		Mode:       packages.NeedName | packages.NeedFiles | packages.NeedSyntax | packages.NeedTypes | packages.NeedTypesInfo | packages.NeedImports | packages.NeedDeps,
		Dir:        e.repo,
		Fset:       e.fset,
		BuildFlags: []string{"-tags=verif"},
		Env:        append(os.Environ(), "GOFLAGS=-mod=mod", "GOPROXY=off", "GOSUMDB=off", "GOTOOLCHAIN=local"),
	}
	var pats []string
	for _, p := range jivaPkgs {
		pats = append(pats, "./"+p)
	}
	pkgs, err := packages.Load(cfg, pats...)
	if err != nil {
		return err
	}
	for _, p := range pkgs {
		if len(p.Errors) > 0 {
			return fmt.Errorf("package %s: %v", p.PkgPath, p.Errors[0])
		}
		e.pkgs[p.PkgPath] = p
		for _, f := range p.Syntax {
			for _, d := range f.Decls {
				fd, ok := d.(*ast.FuncDecl)
				if !ok || fd.Body == nil {
					continue
				}
				obj, _ := p.TypesInfo.Defs[fd.Name].(*types.Func)
				if obj == nil {
					continue
				}
				fi := &FuncInfo{Key: funcKey(obj), Decl: fd, Pkg: p, Obj: obj}
				e.funcs[fi.Key] = fi
				e.byObj[obj] = fi
			}
		}
	}
	e.computeAssignedFields()
	return nil
}

func funcKey(f *types.Func) string {
	sig := f.Type().(*types.Signature)
	pk := ""
	if f.Pkg() != nil {
		pk = f.Pkg().Path()
	}
	if r := sig.Recv(); r != nil {
		t := r.Type()
		if p, ok := t.(*types.Pointer); ok {
			t = p.Elem()
		}
		if n, ok := t.(*types.Named); ok {
			if n.Obj().Pkg() != nil {
				pk = n.Obj().Pkg().Path()
			}
			return pk + "." + n.Obj().Name() + "." + f.Name()
		}
		return pk + ".?." + f.Name()
	}
	return pk + "." + f.Name()
}

func shortKey(k string) string {
	k = strings.TrimPrefix(k, jivaMod+"/")
	return k
}

// LoadContracts reads <pkg>/zz_contracts_verif.go of every loaded jiva package and the externals.
func (e *Engine) LoadContracts(specDir string) error {
	e.cs = NewContractSet()
	var paths []string
	for p := range e.pkgs {
		paths = append(paths, p)
	}
	sort.Strings(paths)
	for _, p := range paths {
		rel := strings.TrimPrefix(strings.TrimPrefix(p, jivaMod), "/")
		f := filepath.Join(e.repo, rel, "zz_contracts_verif.go")
		if _, err := os.Stat(f); err == nil {
			if err := e.cs.LoadFile(f, p); err != nil {
				return err
			}
		}
	}
	specs, _ := filepath.Glob(filepath.Join(specDir, "*.spec"))
	sort.Strings(specs)
	for _, f := range specs {
		if err := e.cs.LoadFile(f, ""); err != nil {
			return err
		}
	}
	// resolve qualified names
	ifs := map[string]*FuncContract{}
	for k, fc := range e.cs.Ifaces {
		i := strings.LastIndex(k, ".")
		nk := e.resolveQual(k[:i]) + k[i:]
		fc.Key = nk
		ifs[nk] = fc
	}
	e.cs.Ifaces = ifs
	for _, fc := range e.cs.Funcs {
		for m, t := range fc.Devirt {
			fc.Devirt[m] = e.resolveQual(t)
		}
	}
	return nil
}

// resolveQual turns "pkgpath::a.B" / "pkgpath::B" into a full key.
func (e *Engine) resolveQual(s string) string {
	i := strings.Index(s, "::")
	if i < 0 {
		return s
	}
	pkgPath, name := s[:i], s[i+2:]
	parts := strings.Split(name, ".")
	if p := e.pkgs[pkgPath]; p != nil && len(parts) >= 2 {
		for _, f := range p.Syntax {
			for _, im := range f.Imports {
				path := strings.Trim(im.Path.Value, `"`)
				nm := ""
				if im.Name != nil {
					nm = im.Name.Name
				} else if ip := p.Imports[path]; ip != nil {
					nm = ip.Name
				} else {
					nm = filepath.Base(path)
				}
				if nm == parts[0] {
					return path + "." + strings.Join(parts[1:], ".")
				}
			}
		}
	}
	return pkgPath + "." + name
}

// ---------------------------------------------------------------------------
// Go types -> sorts

func isSyncType(t types.Type) bool {
	if n, ok := t.(*types.Named); ok && n.Obj().Pkg() != nil {
		p := n.Obj().Pkg().Path()
		return p == "sync" || p == "sync/atomic"
	}
	return false
}

func namedOf(t types.Type) *types.Named {
	if p, ok := t.(*types.Pointer); ok {
		t = p.Elem()
	}
	n, _ := t.(*types.Named)
	return n
}

func typeName(t types.Type) string {
	if n, ok := t.(*types.Named); ok {
		if n.Obj().Pkg() != nil {
			return n.Obj().Pkg().Path() + "." + n.Obj().Name()
		}
		return n.Obj().Name()
	}
	return t.String()
}

func (e *Engine) sortOf(t types.Type) *Sort {
	switch u := t.(type) {
	case *types.Named:
		if st, ok := u.Underlying().(*types.Struct); ok {
			return e.structSort(typeName(u), st)
		}
		return e.sortOf(u.Underlying())
	case *types.Alias:
		return e.sortOf(types.Unalias(u))
	case *types.Basic:
		switch {
		case u.Info()&types.IsBoolean != 0:
			return BoolSort
		case u.Info()&types.IsInteger != 0:
			return IntSort
		case u.Info()&types.IsString != 0:
			return StrSort
		case u.Info()&types.IsFloat != 0:
			return regSort(&Sort{Kind: SUn, Name: "Float"})
		case u.Kind() == types.UnsafePointer || u.Kind() == types.UntypedNil:
			return IntSort
		}
		return IntSort
	case *types.Pointer, *types.Interface, *types.Chan, *types.Signature:
		return IntSort
	case *types.Slice:
		return SliceSort(e.sortOf(u.Elem()))
	case *types.Array:
		return ArrSort(IntSort, e.sortOf(u.Elem()))
	case *types.Map:
		return MapSort(e.sortOf(u.Key()), e.sortOf(u.Elem()))
	case *types.Struct:
		return e.structSort("anon_"+smtIdent(u.String()), u)
	case *types.Tuple:
		return IntSort
	case *types.TypeParam:
		return IntSort
	}
	return IntSort
}

func (e *Engine) structSort(name string, st *types.Struct) *Sort {
	n := "S_" + smtIdent(strings.TrimPrefix(name, jivaMod+"/"))
	if s, ok := sortReg[n]; ok {
		return s
	}
	// register first with no fields to stop recursion (Go forbids recursive value structs anyway)
	var fs []SField
	for i := 0; i < st.NumFields(); i++ {
		f := st.Field(i)
		if isSyncType(f.Type()) {
			continue
		}
		fs = append(fs, SField{f.Name(), e.sortOf(f.Type())})
	}
	if len(fs) == 0 {
		fs = []SField{{"unit", IntSort}}
	}
	return DataSort(n, fs)
}

func intRange(t types.Type) (lo, hi string, ok bool) {
	b, isB := t.Underlying().(*types.Basic)
	if !isB || b.Info()&types.IsInteger == 0 {
		return "", "", false
	}
	switch b.Kind() {
	case types.Int, types.Int64:
		return "-9223372036854775808", "9223372036854775807", true
	case types.Int32:
		return "-2147483648", "2147483647", true
	case types.Int16:
		return "-32768", "32767", true
	case types.Int8:
		return "-128", "127", true
	case types.Uint, types.Uint64, types.Uintptr:
		return "0", "18446744073709551615", true
	case types.Uint32:
		return "0", "4294967295", true
	case types.Uint16:
		return "0", "65535", true
	case types.Uint8:
		return "0", "255", true
	}
	return "", "", false
}

func lit(s string) *Term { return &Term{Op: "lit", Name: s, S: IntSort} }

// typeFacts returns assumptions that hold for any Go value v of type t.
func (e *Engine) typeFacts(v *Term, t types.Type, st *State) *Term {
	if lo, hi, ok := intRange(t); ok {
		return And(Le(lit(lo), v), Le(v, lit(hi)))
	}
	switch u := t.Underlying().(type) {
	case *types.Slice:
		_ = u
		return Ge(Acc(v, "len"), IntLit(0))
	case *types.Map:
		// nil map: empty domain
		return Ge(Acc(v, "card"), IntLit(0))
	case *types.Pointer:
		al := True
		if st != nil {
			al = Select(e.Heap(st, "$alloc", ArrSort(IntSort, BoolSort)), v)
		}
		if n := namedOf(t); n != nil {
			return Or(Eq(v, IntLit(0)), And(Gt(v, IntLit(0)), al, Eq(e.typeOf(v), IntLit(e.tagOf(typeName(n))))))
		}
		return Or(Eq(v, IntLit(0)), And(Gt(v, IntLit(0)), al))
	case *types.Interface, *types.Chan, *types.Signature:
		al := True
		if st != nil {
			al = Select(e.Heap(st, "$alloc", ArrSort(IntSort, BoolSort)), v)
		}
		return Or(Eq(v, IntLit(0)), And(Gt(v, IntLit(0)), al))
	}
	return True
}

func (e *Engine) tagOf(name string) int64 {
	if id, ok := e.tagIDs[name]; ok {
		return id
	}
	id := int64(len(e.tagIDs) + 1)
	e.tagIDs[name] = id
	return id
}

func (e *Engine) typeOf(ref *Term) *Term {
	DeclFunc("dyntype", IntSort, IntSort)
	return App("dyntype", ref)
}

func (e *Engine) strLit(s string) *Term {
	if t, ok := e.strLits[s]; ok {
		return t
	}
	name := "str$" + smtIdent(s)
	if len(name) > 40 {
		name = name[:40]
	}
	name = fmt.Sprintf("%s$%d", name, len(e.strLits))
	t := Var(name, StrSort)
	e.strLits[s] = t
	strLitRegistry[s] = t
	return t
}

func (e *Engine) zeroValue(t types.Type) *Term {
	s := e.sortOf(t)
	return e.zeroOfSort(s, t)
}

func (e *Engine) zeroOfSort(s *Sort, t types.Type) *Term {
	switch s.Kind {
	case SInt:
		return IntLit(0)
	case SBool:
		return False
	case SUn:
		if s == StrSort {
			return e.strLit("")
		}
		return Var("zero$"+s.Name, s)
	case SArr:
		return ConstArr(s, e.zeroOfSort(s.V, nil))
	case SData:
		if s.IsSlice() {
			return Ctor(s, Var("nilarr$"+smtIdent(s.Name), s.Fields[0].S), IntLit(0))
		}
		if s.IsMap() {
			return Ctor(s, Var("nilval$"+smtIdent(s.Name), s.Fields[0].S), ConstArr(s.Fields[1].S, False), IntLit(0))
		}
		args := make([]*Term, len(s.Fields))
		for i, f := range s.Fields {
			args[i] = e.zeroOfSort(f.S, nil)
		}
		return Ctor(s, args...)
	}
	return IntLit(0)
}

// ---------------------------------------------------------------------------
// State

type deferEntry struct {
	call *ast.CallExpr
	fr   *Frame
	// pre-evaluated receiver/args are not modelled: deferred calls in jiva take no
	// arguments that change between defer and return (checked syntactically).
}

type State struct {
	vars   map[*types.Var]*Term
	heap   map[string]*Term
	path   []*Term
	pk     []bool // parallel to path: true = branch condition, false = derived fact
	locks  map[string]string
	defers []*deferEntry
	snaps  map[string]*State
	nlock  int
	ghostN map[string]int
	retOrd int // ordinal of the return statement being executed (0 = none yet / fall off the end)
	epoch  int // bumped by a wholesale havoc: untouched heap keys then resolve to fresh symbols
}

func NewState() *State {
	return &State{vars: map[*types.Var]*Term{}, heap: map[string]*Term{}, locks: map[string]string{}, snaps: map[string]*State{}, ghostN: map[string]int{}}
}

func (s *State) Clone() *State {
	n := &State{vars: make(map[*types.Var]*Term, len(s.vars)), heap: make(map[string]*Term, len(s.heap)), locks: make(map[string]string, len(s.locks)),
		snaps: s.snaps, nlock: s.nlock, ghostN: s.ghostN, retOrd: s.retOrd, epoch: s.epoch}
	for k, v := range s.vars {
		n.vars[k] = v
	}
	for k, v := range s.heap {
		n.heap[k] = v
	}
	for k, v := range s.locks {
		n.locks[k] = v
	}
	n.path = append([]*Term(nil), s.path...)
	n.pk = append([]bool(nil), s.pk...)
	n.defers = append([]*deferEntry(nil), s.defers...)
	return n
}

func (s *State) Assume(t *Term) {
	if t == nil || t.IsTrue() {
		return
	}
	if t.Size() < 40 {
		ts := t.String()
		for i := len(s.path) - 1; i >= 0 && i >= len(s.path)-200; i-- {
			if p := s.path[i]; p == t || (p.Size() == t.Size() && p.String() == ts) {
				return
			}
		}
	}
	s.path = append(s.path, t)
	s.pk = append(s.pk, false)
}

// Branch records a control-flow condition (used as the guard when states are merged).
func (s *State) Branch(t *Term) {
	if t == nil || t.IsTrue() {
		return
	}
	s.path = append(s.path, t)
	s.pk = append(s.pk, true)
}

func (s *State) Infeasible() bool {
	for _, p := range s.path {
		if p.IsFalse() {
			return true
		}
	}
	return false
}

func (s *State) addSnap(name string) {
	m := make(map[string]*State, len(s.snaps)+1)
	for k, v := range s.snaps {
		m[k] = v
	}
	m[name] = s.Clone()
	s.snaps = m
}

// Heap returns the current array of field key (lazily the initial symbol).
func (e *Engine) Heap(st *State, key string, s *Sort) *Term {
	if t, ok := st.heap[key]; ok {
		return t
	}
	t := initHeapSym(st, key, s)
	st.heap[key] = t
	return t
}

func (e *Engine) fieldKey(owner string, f *types.Var) string {
	return owner + "." + f.Name()
}

func (e *Engine) fieldHeapSort(f *types.Var) *Sort {
	return ArrSort(IntSort, e.sortOf(f.Type()))
}

func isStructVal(t types.Type) bool {
	_, ok := t.Underlying().(*types.Struct)
	return ok
}

// subRef is the address of a struct-valued field embedded in a heap object.
func (e *Engine) subRef(owner string, f *types.Var, ref *Term) *Term {
	name := "fld$" + smtIdent(strings.TrimPrefix(owner, jivaMod+"/")) + "." + f.Name()
	DeclFunc(name, IntSort, IntSort)
	return App(name, ref)
}

// subRefIn is subRef plus the fact that an embedded struct of an object allocated at function entry was
// itself allocated at entry (so it is distinct from every object allocated later).
func (e *Engine) subRefIn(st *State, owner string, f *types.Var, ref *Term) *Term {
	sub := e.subRef(owner, f, ref)
	if st != nil {
		al0 := Var("H0$$alloc", ArrSort(IntSort, BoolSort))
		st.Assume(Implies(Select(al0, ref), And(Select(al0, sub), Gt(sub, IntLit(0)))))
	}
	return sub
}

// ---------------------------------------------------------------------------
// Locations

type LocKind int

const (
	LVar    LocKind = iota // local variable
	LHeap                  // field Field of heap object Ref (owner type name Owner)
	LObj                   // whole struct living in the heap at Ref
	LField                 // field of a struct value stored at Base
	LIndex                 // element of slice/array/map stored at Base
	LGlobal                // package-level variable / ghost variable
	LBlank
)

type Loc struct {
	Kind  LocKind
	V     *types.Var
	Ref   *Term
	Owner string
	Field *types.Var
	Base  *Loc
	Idx   *Term
	Key   string
	T     types.Type
}

func (e *Engine) load(st *State, l *Loc) *Term {
	switch l.Kind {
	case LVar:
		if t, ok := st.vars[l.V]; ok {
			return t
		}
		// uninitialised (e.g. captured) variable: fresh
		t := Fresh("v$"+l.V.Name(), e.sortOf(l.V.Type()))
		st.vars[l.V] = t
		st.Assume(e.typeFacts(t, l.V.Type(), st))
		return t
	case LGlobal:
		if fc := e.cs.Funcs[e.curFn]; fc != nil && fc.Options["volatile"] != "" {
			// `option volatile pkg.Var ..`: the variable is written by another goroutine without synchronisation; every
			// read in this function yields an arbitrary value of its type (listed in the evidence)
			for _, n := range strings.Fields(fc.Options["volatile"]) {
				if strings.HasSuffix(l.Key, "/"+n) || strings.HasSuffix(l.Key, ":"+n) || strings.HasSuffix(l.Key, "."+n) && strings.Contains(n, ".") {
					e.assumed["reads of "+n+" in "+shortKey(e.curFn)+" yield arbitrary values (option volatile: written by another goroutine)"] = true
					v := Fresh("vol$"+smtIdent(n), e.sortOf(l.T))
					st.Assume(e.typeFacts(v, l.T, st))
					return v
				}
			}
		}
		return e.Heap(st, l.Key, e.sortOf(l.T))
	case LHeap:
		if isStructVal(l.Field.Type()) && !isSyncType(l.Field.Type()) {
			return e.loadObj(st, e.subRefIn(st, l.Owner, l.Field, l.Ref), l.Field.Type())
		}
		return Select(e.Heap(st, e.fieldKey(l.Owner, l.Field), e.fieldHeapSort(l.Field)), l.Ref)
	case LObj:
		return e.loadObj(st, l.Ref, l.T)
	case LField:
		return Acc(e.load(st, l.Base), l.Field.Name())
	case LIndex:
		b := e.load(st, l.Base)
		switch {
		case b.S.IsSlice():
			return Select(Acc(b, "arr"), l.Idx)
		case b.S.IsMap():
			// m[k].f of an absent key reads the zero value
			return Ite(Select(Acc(b, "dom"), l.Idx), Select(Acc(b, "val"), l.Idx), e.zeroValue(l.T))
		case b.S.Kind == SArr:
			return Select(b, l.Idx)
		}
	}
	panic(fmt.Sprintf("load: bad loc kind %d", l.Kind))
}

// loadObj materialises a struct value from the heap object at ref.
func (e *Engine) loadObj(st *State, ref *Term, t types.Type) *Term {
	s := e.sortOf(t)
	stt := t.Underlying().(*types.Struct)
	owner := typeName(t)
	var args []*Term
	for i := 0; i < stt.NumFields(); i++ {
		f := stt.Field(i)
		if isSyncType(f.Type()) {
			continue
		}
		args = append(args, e.load(st, &Loc{Kind: LHeap, Ref: ref, Owner: owner, Field: f, T: f.Type()}))
	}
	if len(args) == 0 {
		args = []*Term{IntLit(0)}
	}
	return Ctor(s, args...)
}

func (e *Engine) storeObj(st *State, ref *Term, t types.Type, v *Term) {
	stt := t.Underlying().(*types.Struct)
	owner := typeName(t)
	for i := 0; i < stt.NumFields(); i++ {
		f := stt.Field(i)
		if isSyncType(f.Type()) {
			continue
		}
		e.store(st, &Loc{Kind: LHeap, Ref: ref, Owner: owner, Field: f, T: f.Type()}, Acc(v, f.Name()))
	}
}

func (e *Engine) store(st *State, l *Loc, v *Term) {
	switch l.Kind {
	case LBlank:
		return
	case LVar:
		st.vars[l.V] = v
	case LGlobal:
		st.heap[l.Key] = v
	case LHeap:
		if isStructVal(l.Field.Type()) && !isSyncType(l.Field.Type()) {
			e.storeObj(st, e.subRefIn(st, l.Owner, l.Field, l.Ref), l.Field.Type(), v)
			return
		}
		key := e.fieldKey(l.Owner, l.Field)
		h := e.Heap(st, key, e.fieldHeapSort(l.Field))
		st.heap[key] = Store(h, l.Ref, v)
	case LObj:
		e.storeObj(st, l.Ref, l.T, v)
	case LField:
		e.store(st, l.Base, With(e.load(st, l.Base), l.Field.Name(), v))
	case LIndex:
		b := e.load(st, l.Base)
		switch {
		case b.S.IsSlice():
			e.store(st, l.Base, With(b, "arr", Store(Acc(b, "arr"), l.Idx, v)))
		case b.S.IsMap():
			inDom := Select(Acc(b, "dom"), l.Idx)
			st.Assume(Implies(inDom, Ge(Acc(b, "card"), IntLit(1)))) // a key in the domain means a non-empty map
			nb := Ctor(b.S, Store(Acc(b, "val"), l.Idx, v), Store(Acc(b, "dom"), l.Idx, True), Ite(inDom, Acc(b, "card"), Add(Acc(b, "card"), IntLit(1))))
			e.store(st, l.Base, nb)
		case b.S.Kind == SArr:
			e.store(st, l.Base, Store(b, l.Idx, v))
		default:
			panic("store index into " + b.S.Name)
		}
	default:
		panic("store: bad loc")
	}
}

// name the value through a fresh symbol when it grows too large (keeps VCs linear).
func (e *Engine) compact(st *State, v *Term, hint string) *Term {
	limit := 400
	if v.S == IntSort || v.S == BoolSort {
		limit = 40 // scalar joins are named early: arithmetic goals should see a symbol, not a nest of ites
	}
	if v.Size() < limit {
		return v
	}
	n := Fresh("t$"+hint, v.S)
	st.Assume(Eq(n, v))
	return n
}

func (e *Engine) note(format string, a ...interface{}) {
	msg := fmt.Sprintf(format, a...)
	for _, n := range e.notes {
		if n == msg {
			return
		}
	}
	e.notes = append(e.notes, msg)
}

func (e *Engine) pos(n ast.Node) string {
	if n == nil {
		return ""
	}
	p := e.fset.Position(n.Pos())
	return fmt.Sprintf("%s:%d", strings.TrimPrefix(p.Filename, e.repo+"/"), p.Line)
}

// initHeapSym: the symbol a heap key has in st before anything in this epoch touched it.
func initHeapSym(st *State, key string, s *Sort) *Term {
	if localLogKey(key) {
		// a function-local log is untouched by whatever callees do: first read after a havoc = entry value
		return Var(fmt.Sprintf("H0$%s", smtIdent(strings.TrimPrefix(key, jivaMod+"/"))), s)
	}
	return Var(fmt.Sprintf("H%d$%s", st.epoch, smtIdent(strings.TrimPrefix(key, jivaMod+"/"))), s)
}

// computeAssignedFields scans every loaded function body for writes to struct fields.
func (e *Engine) computeAssignedFields() {
	e.assignedFields = map[string]bool{}
	for _, p := range e.pkgs {
		info := p.TypesInfo
		mark := func(x ast.Expr) {
			for {
				switch y := x.(type) {
				case *ast.ParenExpr:
					x = y.X
					continue
				case *ast.IndexExpr:
					x = y.X
					continue
				case *ast.StarExpr:
					x = y.X
					continue
				}
				break
			}
			if sx, ok := x.(*ast.SelectorExpr); ok {
				if sel := info.Selections[sx]; sel != nil && sel.Kind() == types.FieldVal {
					e.fieldKeysOfSelection(sel, func(key string, f *types.Var) { e.assignedFields[key] = true })
				}
			}
		}
		for _, f := range p.Syntax {
			ast.Inspect(f, func(n ast.Node) bool {
				switch s := n.(type) {
				case *ast.AssignStmt:
					for _, l := range s.Lhs {
						mark(l)
					}
				case *ast.IncDecStmt:
					mark(s.X)
				case *ast.RangeStmt:
					if s.Key != nil {
						mark(s.Key)
					}
					if s.Value != nil {
						mark(s.Value)
					}
				case *ast.UnaryExpr:
					if s.Op == token.AND {
						mark(s.X)
					}
				}
				return true
			})
		}
	}
}

// havocAll forgets everything about the heap and the ghost state (a callee with an unchecked frame ran),
// except fields that are never assigned after construction anywhere in the loaded packages.
// localLogKey: the call logs kept by `option calllog` / `option fvlog` belong to the function under
// verification (they record the calls written in its own body): callees do not change them and they are not
// part of any frame.
func localLogKey(k string) bool {
	return k == "ghost:callN" || k == "ghost:callName" || k == "ghost:callArg0" || k == "ghost:callArg1" || k == "ghost:fvN" || k == "ghost:fvName" ||
		strings.HasPrefix(k, "ghost:wg$") || strings.HasPrefix(k, "ghost:retlog_") // the result log of `option retlog` is written only by the function under contract itself
}

func (e *Engine) havocAll(st *State) {
	al := st.heap["$alloc"]
	keep := map[string]*Term{}
	for k, v := range st.heap {
		if localLogKey(k) || (!strings.HasPrefix(k, "ghost:") && !strings.HasPrefix(k, "global:") && !strings.HasPrefix(k, "box$") && !strings.HasPrefix(k, "cell:") && k != "$alloc" && !e.assignedFields[k]) {
			keep[k] = v
		}
	}
	st.heap = keep
	freshCtr++
	st.epoch = freshCtr
	if al != nil {
		// allocation only grows
		na := initHeapSym(st, "$alloc", al.S)
		r := Var("r!al", IntSort)
		st.Assume(Forall([]*Term{r}, Implies(Select(al, r), Select(na, r))))
		st.heap["$alloc"] = na
	}
}

// cellLoc: where the pointee of a pointer to a non-struct value lives: one ghost array per pointee sort, indexed by the pointer.
func (e *Engine) cellLoc(ref *Term, t types.Type) *Loc {
	key := "cell:" + smtIdent(e.sortOf(t).Name)
	if types.IsInterface(t) {
		key = "cell:iface"
	}
	return &Loc{Kind: LIndex, Base: &Loc{Kind: LGlobal, Key: key, T: types.NewArray(t, 0)}, Idx: ref, T: t}
}
