package main

// Symbolic executor over the typed AST: statements.

import (
	"fmt"
	"go/ast"
	"go/token"
	"go/types"
	"sort"
	"strings"
)

type Frame struct {
	e        *Engine
	fn       *FuncInfo
	info     *types.Info
	fc       *FuncContract
	parent   *Frame
	depth    int
	results  []*types.Var
	top      *Frame // verified function's frame
	labels   map[string]bool
	entry    *State // entry snapshot (for old())
	recvVar  *types.Var
	siteCtr  map[string]map[ast.Node]int
	inClosure bool
	specBind map[string]*SVal // extra spec bindings (callpre params etc.)
	allowed  map[string][]*Term
	wholeOK  map[string]bool
	paramVals  map[*types.Var]*Term // entry values of receiver and parameters (boxed ones included)
	labelFrame map[string][]string
	deferredUnlock bool // set while running deferred calls at function exit
	lockedKeys map[string]bool // fields protected by a lock this function acquired: no frame claim (other goroutines may write them)
}

type oKind int

const (
	oNormal oKind = iota
	oReturn
	oBreak
	oContinue
	oGoto
)

type Outcome struct {
	kind  oKind
	label string
	st    *State
}

type subsetErr struct{ msg string }

func (fr *Frame) unsupported(n ast.Node, format string, a ...interface{}) {
	panic(subsetErr{fmt.Sprintf("%s: %s", fr.e.pos(n), fmt.Sprintf(format, a...))})
}

// site returns a stable ordinal for node n within kind.
func (fr *Frame) site(kind string, n ast.Node) int {
	t := fr.top
	if t.siteCtr == nil {
		t.siteCtr = map[string]map[ast.Node]int{}
	}
	m := t.siteCtr[kind]
	if m == nil {
		m = map[ast.Node]int{}
		t.siteCtr[kind] = m
	}
	if k, ok := m[n]; ok {
		return k
	}
	m[n] = len(m) + 1
	return m[n]
}

// ---------------------------------------------------------------------------

var mergeMaxDiff = 6

func commonPrefix(a, b []*Term) int {
	n := 0
	for n < len(a) && n < len(b) && a[n] == b[n] {
		n++
	}
	return n
}

func sameDefers(a, b []*deferEntry) bool {
	if len(a) != len(b) {
		return false
	}
	for i := range a {
		if a[i] != b[i] {
			return false
		}
	}
	return true
}

func sameLocks(a, b map[string]string) bool {
	if len(a) != len(b) {
		return false
	}
	for k, v := range a {
		if b[k] != v {
			return false
		}
	}
	return true
}

// merge joins two states that forked from a common ancestor; nil if not mergeable.
func (e *Engine) merge(a, b *State) *State {
	if a.Infeasible() {
		return b
	}
	if b.Infeasible() {
		return a
	}
	if !sameDefers(a.defers, b.defers) || !sameLocks(a.locks, b.locks) {
		return nil
	}
	if (a.nlock != b.nlock || len(a.snaps) != len(b.snaps)) && !e.forceMerge {
		return nil
	}
	// states that diverged a lot (e.g. one went through a loop or a contract call) stay separate paths:
	// their join would be a large ite-laden VC that solvers handle worse than two small ones
	diff := 0
	for k, va := range a.vars {
		if vb, ok := b.vars[k]; ok && va != vb {
			diff++
		}
	}
	for k, va := range a.heap {
		if vb, ok := b.heap[k]; !ok || va != vb {
			diff++
		}
	}
	if diff > mergeMaxDiff && !e.forceMerge {
		return nil
	}
	if e.noMerge && !e.forceMerge && diff > 0 {
		// `option nomerge`: paths of this function are kept apart (more, but ite-free, obligations)
		return nil
	}
	L := commonPrefix(a.path, b.path)
	split := func(s *State) (cond *Term, facts []*Term) {
		var cs []*Term
		for i := L; i < len(s.path); i++ {
			if s.pk[i] {
				cs = append(cs, s.path[i])
			} else {
				facts = append(facts, s.path[i])
			}
		}
		return And(cs...), facts
	}
	ca, fa := split(a)
	cb, fb := split(b)
	m := a.Clone()
	if a.epoch != b.epoch {
		// a wholesale havoc happened on one side only: keys untouched by both are unknown after the join
		freshCtr++
		m.epoch = freshCtr
	}
	if b.nlock > m.nlock {
		m.nlock = b.nlock
	}
	if len(a.snaps) != len(b.snaps) {
		// keep only labels both paths passed (at(label, ..) on the others is "not reached")
		ns := map[string]*State{}
		for k, v := range a.snaps {
			if _, ok := b.snaps[k]; ok {
				ns[k] = v
			}
		}
		m.snaps = ns
	}
	m.path = append([]*Term(nil), a.path[:L]...)
	m.pk = append([]bool(nil), a.pk[:L]...)
	m.Branch(Or(ca, cb)) // a (disjunctive) branch condition: later merges must keep guarding with it
	if ca.Size() > 60 {
		n := Fresh("pc", BoolSort)
		m.Assume(Eq(n, ca))
		ca = n
	}
	if cb.Size() > 60 {
		n := Fresh("pc", BoolSort)
		m.Assume(Eq(n, cb))
		cb = n
	}
	for _, f := range fa {
		m.Assume(Implies(ca, f))
	}
	for _, f := range fb {
		m.Assume(Implies(cb, f))
	}
	for k, va := range a.vars {
		vb, ok := b.vars[k]
		if !ok {
			delete(m.vars, k)
			continue
		}
		if va != vb {
			m.vars[k] = e.compact(m, Ite(ca, va, vb), k.Name())
		}
	}
	for k, va := range a.heap {
		vb, ok := b.heap[k]
		if !ok {
			vb = initHeapSym(b, k, va.S)
		}
		if va != vb {
			m.heap[k] = e.compact(m, Ite(ca, va, vb), "h")
		}
	}
	for k, vb := range b.heap {
		if _, ok := a.heap[k]; !ok {
			va := initHeapSym(a, k, vb.S)
			if va != vb && va.String() != vb.String() {
				m.heap[k] = e.compact(m, Ite(ca, va, vb), "h")
			} else {
				m.heap[k] = vb
			}
		}
	}
	return m
}

func (e *Engine) mergeAll(sts []*State) []*State {
	var out []*State
	for _, s := range sts {
		if s.Infeasible() {
			continue
		}
		merged := false
		for i, o := range out {
			if m := e.merge(o, s); m != nil {
				out[i] = m
				merged = true
				break
			}
		}
		if !merged {
			out = append(out, s)
		}
	}
	return out
}

// ---------------------------------------------------------------------------

func (fr *Frame) execBlock(st *State, list []ast.Stmt) []Outcome {
	cur := []*State{st}
	var out []Outcome
	pendingGoto := map[string][]*State{}
	for idx, s := range list {
		if ls, ok := s.(*ast.LabeledStmt); ok {
			// forward gotos targeting this label join here
			if ps := pendingGoto[ls.Label.Name]; len(ps) > 0 {
				cur = fr.e.mergeAll(append(cur, ps...))
				delete(pendingGoto, ls.Label.Name)
			}
			// backward-goto loop head?
			if hasGotoTo(list[idx:], ls.Label.Name) {
				var next []*State
				for _, c := range cur {
					os := fr.execLabelLoop(c, ls, list[idx+1:])
					for _, o := range os {
						if o.kind == oNormal {
							next = append(next, o.st)
						} else {
							out = append(out, o)
						}
					}
				}
				// the label loop consumed the rest of the block
				for _, n := range next {
					out = append(out, Outcome{oNormal, "", n})
				}
				return fr.finishBlock(out, pendingGoto)
			}
		}
		var next []*State
		for _, c := range cur {
			if c.Infeasible() {
				continue
			}
			for _, o := range fr.execStmt(c, s) {
				switch {
				case o.kind == oNormal:
					next = append(next, o.st)
				case o.kind == oGoto && labelInList(list[idx+1:], o.label):
					pendingGoto[o.label] = append(pendingGoto[o.label], o.st)
				default:
					out = append(out, o)
				}
			}
		}
		cur = fr.e.mergeAll(next)
		if len(cur) == 0 && len(pendingGoto) == 0 {
			break
		}
	}
	for _, c := range cur {
		out = append(out, Outcome{oNormal, "", c})
	}
	return fr.finishBlock(out, pendingGoto)
}

func (fr *Frame) finishBlock(out []Outcome, pending map[string][]*State) []Outcome {
	for l, ps := range pending {
		for _, p := range ps {
			out = append(out, Outcome{oGoto, l, p})
		}
	}
	return out
}

func labelInList(list []ast.Stmt, l string) bool {
	for _, s := range list {
		if ls, ok := s.(*ast.LabeledStmt); ok && ls.Label.Name == l {
			return true
		}
	}
	return false
}

func hasGotoTo(list []ast.Stmt, l string) bool {
	found := false
	for _, s := range list {
		ast.Inspect(s, func(n ast.Node) bool {
			if b, ok := n.(*ast.BranchStmt); ok && b.Tok == token.GOTO && b.Label != nil && b.Label.Name == l {
				found = true
			}
			return !found
		})
	}
	return found
}

func (fr *Frame) execStmt(st *State, s ast.Stmt) (res []Outcome) {
	e := fr.e
	normal := func(s *State) []Outcome { return []Outcome{{oNormal, "", s}} }
	switch s := s.(type) {
	case *ast.EmptyStmt:
		return normal(st)
	case *ast.BlockStmt:
		return fr.execBlock(st, s.List)
	case *ast.ExprStmt:
		if call, ok := s.X.(*ast.CallExpr); ok {
			fr.evalCall(st, call, 0)
			return normal(st)
		}
		if u, ok := s.X.(*ast.UnaryExpr); ok && u.Op == token.ARROW {
			return normal(st) // channel receive, value dropped
		}
		fr.eval(st, s.X)
		return normal(st)
	case *ast.DeclStmt:
		gd := s.Decl.(*ast.GenDecl)
		if gd.Tok != token.VAR {
			return normal(st)
		}
		for _, sp := range gd.Specs {
			vs := sp.(*ast.ValueSpec)
			if len(vs.Values) == 1 && len(vs.Names) > 1 {
				vals := fr.evalMulti(st, vs.Values[0], len(vs.Names))
				for i, n := range vs.Names {
					fr.declare(st, n, vals[i])
				}
				continue
			}
			for i, n := range vs.Names {
				var v *Term
				if i < len(vs.Values) {
					v = fr.evalAs(st, vs.Values[i], fr.info.Defs[n].Type())
				}
				fr.declare(st, n, v)
			}
		}
		return normal(st)
	case *ast.AssignStmt:
		fr.execAssign(st, s)
		return normal(st)
	case *ast.IncDecStmt:
		l := fr.evalLoc(st, s.X)
		v := e.load(st, l)
		fr.assumeTypeFacts(st, v, fr.info.TypeOf(s.X))
		var nv *Term
		if s.Tok == token.INC {
			nv = Add(v, IntLit(1))
		} else {
			nv = Sub(v, IntLit(1))
		}
		nv = fr.wrapInt(st, nv, fr.info.TypeOf(s.X), s, "incdec")
		e.store(st, l, nv)
		return normal(st)
	case *ast.IfStmt:
		if s.Init != nil {
			outs := fr.execStmt(st, s.Init)
			if len(outs) != 1 || outs[0].kind != oNormal {
				fr.unsupported(s, "if-init with control flow")
			}
			st = outs[0].st
		}
		c := fr.eval(st, s.Cond)
		var out []Outcome
		if !c.IsFalse() {
			t := st.Clone()
			t.Branch(c)
			out = append(out, fr.execBlock(t, s.Body.List)...)
		}
		if !c.IsTrue() {
			f := st.Clone()
			f.Branch(Not(c))
			if s.Else != nil {
				out = append(out, fr.execStmt(f, s.Else)...)
			} else {
				out = append(out, Outcome{oNormal, "", f})
			}
		}
		return fr.mergeNormals(out)
	case *ast.SwitchStmt:
		return fr.execSwitch(st, s)
	case *ast.ForStmt:
		return fr.execFor(st, s, "")
	case *ast.RangeStmt:
		return fr.execRange(st, s, "")
	case *ast.LabeledStmt:
		switch inner := s.Stmt.(type) {
		case *ast.ForStmt:
			return fr.execFor(st, inner, s.Label.Name)
		case *ast.RangeStmt:
			return fr.execRange(st, inner, s.Label.Name)
		}
		return fr.execStmt(st, s.Stmt)
	case *ast.ReturnStmt:
		fr.execReturn(st, s)
		return []Outcome{{oReturn, "", st}}
	case *ast.BranchStmt:
		lbl := ""
		if s.Label != nil {
			lbl = s.Label.Name
		}
		switch s.Tok {
		case token.BREAK:
			return []Outcome{{oBreak, lbl, st}}
		case token.CONTINUE:
			return []Outcome{{oContinue, lbl, st}}
		case token.GOTO:
			if fr.labels[lbl] {
				// backward goto: invariant must hold, path ends
				fr.checkLabelInv(st, lbl, "preserve", s)
				return nil
			}
			return []Outcome{{oGoto, lbl, st}}
		}
		fr.unsupported(s, "branch %s", s.Tok)
	case *ast.DeferStmt:
		st.defers = append(st.defers, &deferEntry{call: s.Call, fr: fr})
		return normal(st)
	case *ast.GoStmt:
		// `go func(args){...}(args)`: fork/join idiom, sequentialised; `go named(...)`: spawn, no effect here
		if _, ok := s.Call.Fun.(*ast.FuncLit); ok {
			e.inGoStmt = true
			fr.evalCall(st, s.Call, 0)
			e.inGoStmt = false
			return normal(st)
		}
		e.dropped["go "+exprString(s.Call.Fun)+"(...) [spawn: verified separately]"] = true
		if fr.top != nil && fr.top.fc != nil && fr.top.fc.Options["calllog"] != "" {
			// `option calllog f`: the spawn of a goroutine running f is recorded like a call of f
			if fn := e.staticCallee(fr.info, s.Call); fn != nil {
				var args []*Term
				for _, a := range s.Call.Args {
					args = append(args, fr.eval(st, a))
				}
				fr.logCall(st, fn, args)
			}
		}
		return normal(st)
	case *ast.SendStmt:
		fr.execSend(st, s)
		return normal(st)
	case *ast.SelectStmt:
		// any communication clause may be the one that proceeds (blocking/readiness is not modelled):
		// every clause is executed from the current state; a received value is arbitrary
		var out []Outcome
		for _, cc0 := range s.Body.List {
			cc := cc0.(*ast.CommClause)
			b := st.Clone()
			b.Branch(Fresh("select", BoolSort))
			switch c := cc.Comm.(type) {
			case nil:
			case *ast.SendStmt:
				fr.execSend(b, c)
			case *ast.ExprStmt:
				fr.evalIgnore(b, c.X)
			case *ast.AssignStmt:
				outs := fr.execStmt(b, c)
				if len(outs) != 1 || outs[0].kind != oNormal {
					fr.unsupported(s, "select receive clause")
				}
				b = outs[0].st
			default:
				fr.unsupported(s, "select clause %T", cc.Comm)
			}
			for _, o := range fr.execBlock(b, cc.Body) {
				if o.kind == oBreak && o.label == "" {
					o = Outcome{oNormal, "", o.st}
				}
				out = append(out, o)
			}
		}
		return fr.mergeNormals(out)
	case *ast.TypeSwitchStmt:
		return fr.execTypeSwitch(st, s)
	}
	fr.unsupported(s, "statement %T", s)
	return nil
}

// execSend: `ch <- v`. Under `option chanlog` of the function under contract the send is appended to the
// ghost log (chanSendN, chanSendCh[k] = channel, chanSendVal[k] = value when it is a reference or integer).
func (fr *Frame) execSend(st *State, s *ast.SendStmt) {
	e := fr.e
	v := fr.eval(st, s.Value)
	if len(st.locks) > 0 {
		e.oblige(fr, st, "block-under-lock", "", fr.site("block", s), False, s, nil, "channel send while holding a lock")
	}
	if fr.top.fc != nil && fr.fn == fr.top.fn {
		// `callpre send(ch, v): expr` constrains the channel sends written in the function under contract
		for i, c := range fr.top.fc.CallPre["send"] {
			if len(c.Params) != 2 {
				continue
			}
			ch := fr.eval(st, s.Chan)
			b := map[string]*SVal{c.Params[0]: {T: ch, Ty: fr.info.TypeOf(s.Chan)}, c.Params[1]: {T: v, Ty: fr.info.TypeOf(s.Value)}}
			g := fr.top.evalSpecBool(st, c.Expr, b, fr.top.entry)
			name := c.Name
			if name == "" {
				name = fmt.Sprintf("%d", i+1)
			}
			e.oblige(fr, st, "callpre:send#"+name, "", fr.site("callpre", s), g, s, c, "")
			st.Assume(g)
		}
	}
	if fr.top.fc != nil && fr.top.fc.Options["chanlog"] != "" {
		ch := fr.eval(st, s.Chan)
		n := e.Heap(st, "ghost:chanSendN", IntSort)
		chs := e.Heap(st, "ghost:chanSendCh", ArrSort(IntSort, IntSort))
		st.heap["ghost:chanSendCh"] = Store(chs, n, ch)
		if v.S == IntSort {
			vals := e.Heap(st, "ghost:chanSendVal", ArrSort(IntSort, IntSort))
			st.heap["ghost:chanSendVal"] = Store(vals, n, v)
		}
		st.heap["ghost:chanSendN"] = Add(n, IntLit(1))
	}
}

func (fr *Frame) mergeNormals(out []Outcome) []Outcome {
	var normals []*State
	var rest []Outcome
	for _, o := range out {
		if o.st.Infeasible() {
			continue
		}
		if o.kind == oNormal {
			normals = append(normals, o.st)
		} else {
			rest = append(rest, o)
		}
	}
	for _, n := range fr.e.mergeAll(normals) {
		rest = append(rest, Outcome{oNormal, "", n})
	}
	return rest
}

func (fr *Frame) declare(st *State, id *ast.Ident, v *Term) {
	if id.Name == "_" {
		return
	}
	obj, _ := fr.info.Defs[id].(*types.Var)
	if obj == nil {
		return
	}
	e := fr.e
	if fr.top.fn.boxed[obj] || fr.fn.boxed[obj] {
		// address-taken local: lives in the heap
		ref := e.alloc(st, obj.Type(), id.Name)
		st.vars[obj] = ref
		if v == nil {
			v = e.zeroValue(obj.Type())
		}
		if isStructVal(obj.Type()) {
			e.storeObj(st, ref, obj.Type(), v)
		} else {
			e.store(st, e.cellLoc(ref, obj.Type()), v)
		}
		return
	}
	if v == nil {
		v = e.zeroValue(obj.Type())
	}
	st.vars[obj] = v
}

// alloc returns a fresh non-nil reference of (pointer to) type t.
func (e *Engine) alloc(st *State, t types.Type, hint string) *Term {
	r := Fresh("new$"+hint, IntSort)
	al := e.Heap(st, "$alloc", ArrSort(IntSort, BoolSort))
	st.Assume(Gt(r, IntLit(0)))
	st.Assume(Not(Select(al, r)))
	st.heap["$alloc"] = Store(al, r, True)
	if n := namedOf(t); n != nil {
		st.Assume(Eq(e.typeOf(r), IntLit(e.tagOf(typeName(n)))))
	}
	return r
}

func (fr *Frame) execAssign(st *State, s *ast.AssignStmt) {
	e := fr.e
	// x op= y
	if s.Tok != token.ASSIGN && s.Tok != token.DEFINE {
		l := fr.evalLoc(st, s.Lhs[0])
		cur := e.load(st, l)
		rhs := fr.eval(st, s.Rhs[0])
		var op token.Token
		switch s.Tok {
		case token.ADD_ASSIGN:
			op = token.ADD
		case token.SUB_ASSIGN:
			op = token.SUB
		case token.MUL_ASSIGN:
			op = token.MUL
		case token.QUO_ASSIGN:
			op = token.QUO
		case token.REM_ASSIGN:
			op = token.REM
		default:
			fr.unsupported(s, "assign op %s", s.Tok)
		}
		v := fr.binop(st, op, cur, rhs, fr.info.TypeOf(s.Lhs[0]), s)
		e.store(st, l, v)
		return
	}
	var vals []*Term
	if len(s.Lhs) > 1 && len(s.Rhs) == 1 {
		vals = fr.evalMulti(st, s.Rhs[0], len(s.Lhs))
	} else {
		for i, r := range s.Rhs {
			var lt types.Type
			if id, ok := s.Lhs[i].(*ast.Ident); ok && s.Tok == token.DEFINE {
				if o := fr.info.Defs[id]; o != nil {
					lt = o.Type()
				}
			}
			if lt == nil {
				lt = fr.info.TypeOf(s.Lhs[i])
			}
			vals = append(vals, fr.evalAs(st, r, lt))
		}
	}
	for i, l := range s.Lhs {
		if id, ok := l.(*ast.Ident); ok {
			if id.Name == "_" {
				continue
			}
			if s.Tok == token.DEFINE {
				if _, isDef := fr.info.Defs[id].(*types.Var); isDef {
					fr.declare(st, id, vals[i])
					continue
				}
			}
		}
		loc := fr.evalLoc(st, l)
		fr.guardedWrite(st, loc, l)
		e.store(st, loc, vals[i])
	}
}

func (fr *Frame) execReturn(st *State, s *ast.ReturnStmt) {
	e := fr.e
	if fr == fr.top {
		st.retOrd = fr.fn.rets[s]
	}
	if len(s.Results) == 0 {
		return
	}
	var vals []*Term
	if len(s.Results) == 1 && len(fr.results) > 1 {
		vals = fr.evalMulti(st, s.Results[0], len(fr.results))
	} else {
		for i, r := range s.Results {
			vals = append(vals, fr.evalAs(st, r, fr.results[i].Type()))
		}
	}
	for i, rv := range fr.results {
		if fr.fn.boxed[rv] {
			fr.unsupported(s, "boxed result variable")
		}
		st.vars[rv] = vals[i]
	}
	_ = e
}

func (fr *Frame) execSwitch(st *State, s *ast.SwitchStmt) []Outcome {
	if s.Init != nil {
		outs := fr.execStmt(st, s.Init)
		if len(outs) != 1 || outs[0].kind != oNormal {
			fr.unsupported(s, "switch-init with control flow")
		}
		st = outs[0].st
	}
	var tag *Term
	if s.Tag != nil {
		tag = fr.eval(st, s.Tag)
	}
	var out []Outcome
	rest := st // state in which no earlier case matched
	var deflt *ast.CaseClause
	for _, c := range s.Body.List {
		cc := c.(*ast.CaseClause)
		if cc.List == nil {
			deflt = cc
			continue
		}
		var conds []*Term
		for _, x := range cc.List {
			if tag != nil {
				v := fr.evalAs(rest, x, fr.info.TypeOf(s.Tag))
				conds = append(conds, Eq(tag, v))
			} else {
				conds = append(conds, fr.eval(rest, x))
			}
		}
		cond := Or(conds...)
		t := rest.Clone()
		t.Branch(cond)
		if !t.Infeasible() {
			for _, o := range fr.execBlock(t, cc.Body) {
				if o.kind == oBreak && o.label == "" {
					o.kind = oNormal
				}
				out = append(out, o)
			}
		}
		rest = rest.Clone()
		rest.Branch(Not(cond))
		for _, st := range cc.Body {
			if b, ok := st.(*ast.BranchStmt); ok && b.Tok == token.FALLTHROUGH {
				fr.unsupported(s, "fallthrough")
			}
		}
	}
	if deflt != nil {
		for _, o := range fr.execBlock(rest, deflt.Body) {
			if o.kind == oBreak && o.label == "" {
				o.kind = oNormal
			}
			out = append(out, o)
		}
	} else {
		out = append(out, Outcome{oNormal, "", rest})
	}
	return fr.mergeNormals(out)
}

// ---------------------------------------------------------------------------
// Loops

type loopCtx struct {
	node    ast.Node
	ord     int
	k       *Term // iteration counter for range loops ($k)
	seen    *Term // $seen for map ranges
	rangeV  *Term // $range: the ranged slice/map value (entry)
	invs    []*Clause
	fnKey   string
	frameKeys []string // heap keys havocked wholesale at the loop head: the function's frame is an implicit invariant
}

func (fr *Frame) loopInvs(n ast.Node) (int, []*Clause) {
	ord := fr.fn.loops[n]
	if fr.fc != nil {
		return ord, fr.fc.LoopInv[ord]
	}
	return ord, nil
}

// modset of a loop body: assigned locals and written heap keys.
type modSet struct {
	vars   map[*types.Var]bool
	heap   map[string]*Sort
	ghosts map[string]bool
	all    bool
	// refinement: keys written only through `v.f...` with v a variable; whole[k] set when some write is not of that form
	at    map[string]map[*types.Var]bool
	whole map[string]bool
}

func (fr *Frame) havocMods(st *State, ms *modSet) (wholeKeys []string) {
	e := fr.e
	for v := range ms.vars {
		if _, ok := st.vars[v]; !ok {
			continue
		}
		if fr.top.fn.boxed[v] || fr.fn.boxed[v] {
			continue
		}
		nv := Fresh(v.Name(), e.sortOf(v.Type()))
		st.vars[v] = nv
		st.Assume(e.typeFacts(nv, v.Type(), st))
	}
	for k, s := range ms.heap {
		if !ms.whole[k] && len(ms.at[k]) > 0 {
			ok := true
			for v := range ms.at[k] {
				if ms.vars[v] {
					ok = false // base variable itself changes in the loop
				}
				if _, have := st.vars[v]; !have {
					ok = false
				}
			}
			if ok {
				h := e.Heap(st, k, s)
				for v := range ms.at[k] {
					nv := Fresh("hv$"+shortKey(k), s.V)
					h = Store(h, st.vars[v], nv)
				}
				st.heap[k] = h
				continue
			}
		}
		st.heap[k] = Fresh("H$"+shortKey(k), s)
		if !strings.HasPrefix(k, "ghost:") && !strings.HasPrefix(k, "global:") && !strings.HasPrefix(k, "box$") && !strings.HasPrefix(k, "cell:") && k != "$alloc" {
			wholeKeys = append(wholeKeys, k)
		}
	}
	sort.Strings(wholeKeys)
	return wholeKeys
}

// trySpecBool evaluates a helper clause; a clause that names something the function no longer has (a local that
// was removed or a loop special of another loop kind) yields nil instead of stopping the whole function.
func (fr *Frame) trySpecBool(st *State, c *Clause, b map[string]*SVal) (g *Term, why string) {
	defer func() {
		if r := recover(); r != nil {
			if x, ok := r.(specErr); ok && strings.Contains(x.msg, "stale-contract: unresolved name") {
				g, why = nil, x.msg
				return
			}
			panic(r)
		}
	}()
	return fr.evalSpecBool(st, c.Expr, b, fr.entry), ""
}

func (fr *Frame) trySpecBoolB(st *State, c *Clause, b map[string]*SVal) (g *Term, why string) {
	return fr.trySpecBool(st, c, b)
}

func (fr *Frame) checkInvs(st *State, lc *loopCtx, phase string, node ast.Node) {
	if phase == "entry" {
		// helper invariants that no longer resolve are dropped (reported as a note); the obligations they
		// supported are still generated and fail if the loop needed them
		var keep []*Clause
		for _, c := range lc.invs {
			if g, why := fr.trySpecBool(st.Clone(), c, fr.loopBindings(lc)); g == nil {
				fr.e.note("stale-invariant: %s loop %d invariant `%s` dropped (%s)", shortKey(fr.top.fn.Key), lc.ord, c.Text, why)
				continue
			}
			keep = append(keep, c)
		}
		lc.invs = keep
	}
	for i, c := range lc.invs {
		g := fr.evalSpecBool(st, c.Expr, fr.loopBindings(lc), fr.entry)
		name := c.Name
		if name == "" {
			name = fmt.Sprintf("%d", i+1)
		}
		fr.e.oblige(fr, st, fmt.Sprintf("inv#%d.%s-%s", lc.ord, name, phase), "", 0, g, node, c, "")
	}
	for _, k := range lc.frameKeys {
		if g := fr.frameFact(st, k); g != nil {
			fr.e.oblige(fr, st, fmt.Sprintf("inv#%d.frame-%s", lc.ord, phase), shortKey(k), 0, g, node, nil, "implicit loop invariant: only what `modifies` names may change")
		}
	}
}

func (fr *Frame) assumeInvs(st *State, lc *loopCtx) {
	for _, c := range lc.invs {
		st.Assume(fr.evalSpecBool(st, c.Expr, fr.loopBindings(lc), fr.entry))
	}
	for _, k := range lc.frameKeys {
		if g := fr.frameFact(st, k); g != nil {
			st.Assume(g)
		}
	}
}

func (fr *Frame) loopBindings(lc *loopCtx) map[string]*SVal {
	b := map[string]*SVal{}
	if lc.k != nil {
		b["$k"] = &SVal{T: lc.k, Ty: types.Typ[types.Int]}
	}
	if lc.seen != nil {
		b["$seen"] = &SVal{T: lc.seen}
	}
	if lc.rangeV != nil {
		b["$range"] = &SVal{T: lc.rangeV}
	}
	return b
}

func (fr *Frame) execFor(st *State, s *ast.ForStmt, label string) []Outcome {
	nLoopVars := len(fr.e.loopVars)
	defer func() { fr.e.loopVars = fr.e.loopVars[:nLoopVars] }()
	if as, ok := s.Init.(*ast.AssignStmt); ok && as.Tok == token.DEFINE {
		for _, x := range as.Lhs {
			if id, ok := x.(*ast.Ident); ok && id.Name != "_" {
				if v, ok := fr.info.Defs[id].(*types.Var); ok {
					fr.e.loopVars = append(fr.e.loopVars, v)
				}
			}
		}
	}
	if s.Init != nil {
		outs := fr.execStmt(st, s.Init)
		if len(outs) != 1 || outs[0].kind != oNormal {
			fr.unsupported(s, "for-init with control flow")
		}
		st = outs[0].st
	}
	ord, invs := fr.loopInvs(s)
	lc := &loopCtx{node: s, ord: ord, invs: invs}
	if len(invs) > 0 {
		st.addSnap(fmt.Sprintf("loop%d", ord)) // at(loopN, e): e in the state just before loop N
	}
	fr.checkInvs(st, lc, "entry", s)
	head := st.Clone()
	ms := fr.modsOf(s.Body, s.Post)
	lc.frameKeys = fr.havocMods(head, ms)
	fr.assumeInvs(head, lc)
	var out []Outcome
	cond := True
	if s.Cond != nil {
		cond = fr.eval(head, s.Cond)
	}
	// body
	if !cond.IsFalse() {
		b := head.Clone()
		b.Branch(cond)
		for _, o := range fr.execBlock(b, s.Body.List) {
			switch {
			case o.kind == oNormal, o.kind == oContinue && (o.label == "" || o.label == label):
				ns := o.st
				if s.Post != nil {
					po := fr.execStmt(ns, s.Post)
					ns = po[0].st
				}
				fr.checkInvs(ns, lc, "preserve", s)
			case o.kind == oBreak && (o.label == "" || o.label == label):
				out = append(out, Outcome{oNormal, "", o.st})
			default:
				out = append(out, o)
			}
		}
	}
	if !cond.IsTrue() {
		x := head.Clone()
		x.Branch(Not(cond))
		out = append(out, Outcome{oNormal, "", x})
	}
	return fr.mergeNormals(out)
}

func (fr *Frame) execRange(st *State, s *ast.RangeStmt, label string) []Outcome {
	e := fr.e
	xt := fr.info.TypeOf(s.X)
	ord, invs := fr.loopInvs(s)
	lc := &loopCtx{node: s, ord: ord, invs: invs}
	if len(invs) > 0 {
		st.addSnap(fmt.Sprintf("loop%d", ord))
	}
	ms := fr.modsOf(s.Body, nil)
	if id, ok := s.Key.(*ast.Ident); ok && id.Name != "_" {
		if v, ok := fr.info.ObjectOf(id).(*types.Var); ok {
			ms.vars[v] = true
		}
	}
	if id, ok := s.Value.(*ast.Ident); ok && id.Name != "_" {
		if v, ok := fr.info.ObjectOf(id).(*types.Var); ok {
			ms.vars[v] = true
		}
	}
	nLoopVars := len(e.loopVars)
	defer func() { e.loopVars = e.loopVars[:nLoopVars] }()
	if s.Tok == token.DEFINE {
		for _, x := range []ast.Expr{s.Key, s.Value} {
			if id, ok := x.(*ast.Ident); ok && id.Name != "_" {
				if v, ok := fr.info.Defs[id].(*types.Var); ok {
					e.loopVars = append(e.loopVars, v)
				}
			}
		}
	}
	bindKV := func(b *State, k, v *Term) {
		if s.Key != nil {
			if id, ok := s.Key.(*ast.Ident); ok {
				if s.Tok == token.DEFINE {
					fr.declare(b, id, k)
				} else if id.Name != "_" {
					e.store(b, fr.evalLoc(b, s.Key), k)
				}
			}
		}
		if s.Value != nil && v != nil {
			if id, ok := s.Value.(*ast.Ident); ok {
				if s.Tok == token.DEFINE {
					fr.declare(b, id, v)
				} else if id.Name != "_" {
					e.store(b, fr.evalLoc(b, s.Value), v)
				}
			}
		}
	}
	var out []Outcome
	switch u := xt.Underlying().(type) {
	case *types.Slice, *types.Array, *types.Basic:
		var x0, n *Term
		isInt := false
		if b, ok := u.(*types.Basic); ok {
			if b.Info()&types.IsInteger == 0 {
				fr.unsupported(s, "range over %s", xt)
			}
			isInt = true
			n = fr.eval(st, s.X)
		} else if a, ok := u.(*types.Array); ok {
			x0 = fr.eval(st, s.X)
			n = IntLit(a.Len())
		} else {
			x0 = fr.eval(st, s.X)
			n = Acc(x0, "len")
		}
		lc.rangeV = x0
		lc.k = IntLit(0)
		fr.checkInvs(st, lc, "entry", s)
		head := st.Clone()
		lc.frameKeys = fr.havocMods(head, ms)
		k := Fresh("k", IntSort)
		lc.k = k
		head.Assume(And(Le(IntLit(0), k), Le(k, n)))
		fr.assumeInvs(head, lc)
		// body
		b := head.Clone()
		b.Branch(Lt(k, n))
		var elem *Term
		if !isInt && s.Value != nil {
			if x0.S.IsSlice() {
				elem = Select(Acc(x0, "arr"), k)
			} else {
				elem = Select(x0, k)
			}
			if et := elemType(xt); et != nil {
				b.Assume(e.typeFacts(elem, et, b))
			}
		}
		bindKV(b, k, elem)
		for _, o := range fr.execBlock(b, s.Body.List) {
			switch {
			case o.kind == oNormal, o.kind == oContinue && (o.label == "" || o.label == label):
				lc2 := *lc
				lc2.k = Add(k, IntLit(1))
				fr.checkInvs(o.st, &lc2, "preserve", s)
			case o.kind == oBreak && (o.label == "" || o.label == label):
				out = append(out, Outcome{oNormal, "", o.st})
			default:
				out = append(out, o)
			}
		}
		x := head.Clone()
		x.Branch(Eq(k, n))
		out = append(out, Outcome{oNormal, "", x})
	case *types.Map:
		ks := e.sortOf(u.Key())
		seenS := ArrSort(ks, BoolSort)
		lc.seen = ConstArr(seenS, False)
		lc.k = IntLit(0)
		lc.rangeV = fr.eval(st, s.X)
		fr.checkInvs(st, lc, "entry", s)
		head := st.Clone()
		lc.frameKeys = fr.havocMods(head, ms)
		seen := Fresh("seen", seenS)
		lc.seen = seen
		m := fr.eval(head, s.X) // current value of the ranged map
		lc.rangeV = m
		kcnt := Fresh("k", IntSort)
		lc.k = kcnt
		// |seen| = k; seen is a subset of what the map held, so k <= card when the loop does not shrink the map
		head.Assume(Ge(kcnt, IntLit(0)))
		mapStable := !fr.writesMap(s.X, ms)
		if mapStable {
			head.Assume(Le(kcnt, Acc(m, "card")))
		}
		fr.assumeInvs(head, lc)
		b := head.Clone()
		key := Fresh("key", ks)
		b.Branch(And(Select(Acc(m, "dom"), key), Not(Select(seen, key))))
		if mapStable {
			b.Assume(Lt(kcnt, Acc(m, "card")))
		}
		val := Select(Acc(m, "val"), key)
		b.Assume(e.typeFacts(key, u.Key(), b))
		b.Assume(e.typeFacts(val, u.Elem(), b))
		bindKV(b, key, val)
		for _, o := range fr.execBlock(b, s.Body.List) {
			switch {
			case o.kind == oNormal, o.kind == oContinue && (o.label == "" || o.label == label):
				lc2 := *lc
				lc2.seen = Store(seen, key, True)
				lc2.k = Add(kcnt, IntLit(1))
				lc2.rangeV = fr.eval(o.st, s.X)
				fr.checkInvs(o.st, &lc2, "preserve", s)
			case o.kind == oBreak && (o.label == "" || o.label == label):
				out = append(out, Outcome{oNormal, "", o.st})
			default:
				out = append(out, o)
			}
		}
		x := head.Clone()
		kk := Var("k!q", ks)
		x.Branch(Forall([]*Term{kk}, Implies(Select(Acc(m, "dom"), kk), Select(seen, kk))))
		if mapStable {
			x.Assume(Eq(kcnt, Acc(m, "card")))
		}
		// the visited set never exceeds what was in the map at some point; for maps not shrunk in the loop: seen ⊆ dom
		out = append(out, Outcome{oNormal, "", x})
	case *types.Chan:
		// for v := range ch: any number of iterations, each receiving an arbitrary element; the loop
		// ends when the channel is closed (termination not claimed)
		// $seen: the set of values received so far. What the producer delivers is stated by listed assumptions:
		// `assume loopN: expr` about the element received in an iteration, `assume exitN: expr` about $seen when the
		// channel is found closed (the consumer-side view of the producer's contract).
		fr.evalIgnore(st, s.X)
		seenS := ArrSort(e.sortOf(u.Elem()), BoolSort)
		lc.seen = ConstArr(seenS, False)
		lc.k = IntLit(0)
		fr.checkInvs(st, lc, "entry", s)
		head := st.Clone()
		lc.frameKeys = fr.havocMods(head, ms)
		k := Fresh("k", IntSort)
		lc.k = k
		seen := Fresh("seen", seenS)
		lc.seen = seen
		head.Assume(Le(IntLit(0), k))
		fr.assumeInvs(head, lc)
		b := head.Clone()
		more := Fresh("recvok", BoolSort)
		b.Branch(more)
		elem := Fresh("recv", e.sortOf(u.Elem()))
		b.Assume(e.typeFacts(elem, u.Elem(), b))
		bindKV(b, elem, nil)
		if fr.fc != nil && fr.fn == fr.top.fn {
			// `assume loopN: expr`: listed assumption about the element received in an iteration
			for _, c := range fr.fc.Assumes[fmt.Sprintf("loop%d", ord)] {
				b.Assume(fr.top.evalSpecBool(b, c.Expr, fr.loopBindings(lc), fr.top.entry))
			}
		}
		for _, o := range fr.execBlock(b, s.Body.List) {
			switch {
			case o.kind == oNormal, o.kind == oContinue && (o.label == "" || o.label == label):
				lc2 := *lc
				lc2.k = Add(k, IntLit(1))
				lc2.seen = Store(seen, elem, True)
				fr.checkInvs(o.st, &lc2, "preserve", s)
			case o.kind == oBreak && (o.label == "" || o.label == label):
				out = append(out, Outcome{oNormal, "", o.st})
			default:
				out = append(out, o)
			}
		}
		x := head.Clone()
		x.Branch(Not(more))
		if fr.fc != nil && fr.fn == fr.top.fn {
			for _, c := range fr.fc.Assumes[fmt.Sprintf("exit%d", ord)] {
				x.Assume(fr.top.evalSpecBool(x, c.Expr, fr.loopBindings(lc), fr.top.entry))
			}
		}
		out = append(out, Outcome{oNormal, "", x})
	default:
		fr.unsupported(s, "range over %s", xt)
	}
	return fr.mergeNormals(out)
}

func elemType(t types.Type) types.Type {
	switch u := t.Underlying().(type) {
	case *types.Slice:
		return u.Elem()
	case *types.Array:
		return u.Elem()
	case *types.Map:
		return u.Elem()
	case *types.Pointer:
		return elemType(u.Elem())
	}
	return nil
}

// execLabelLoop handles `L: stmt ... goto L` (backward goto) as a loop with a label invariant.
func (fr *Frame) execLabelLoop(st *State, ls *ast.LabeledStmt, rest []ast.Stmt) []Outcome {
	lbl := ls.Label.Name
	fr.checkLabelInv(st, lbl, "entry", ls)
	head := st.Clone()
	var nodes []ast.Node
	nodes = append(nodes, ls.Stmt)
	for _, r := range rest {
		nodes = append(nodes, r)
	}
	ms := fr.modsOfNodes(nodes)
	fkeys := fr.havocMods(head, ms)
	if fr.labelFrame == nil {
		fr.labelFrame = map[string][]string{}
	}
	fr.labelFrame[lbl] = fkeys
	// the entry state must satisfy the implicit frame invariant too
	for _, k := range fkeys {
		if g := fr.frameFact(st, k); g != nil {
			fr.e.oblige(fr, st, fmt.Sprintf("labelinv.%s.frame-entry", lbl), shortKey(k), 0, g, ls, nil, "implicit loop invariant: only what `modifies` names may change")
		}
	}
	if fr.fc != nil {
		for _, c := range fr.fc.LabelInv[lbl] {
			head.Assume(fr.evalSpecBool(head, c.Expr, nil, fr.entry))
		}
	}
	for _, k := range fkeys {
		if g := fr.frameFact(head, k); g != nil {
			head.Assume(g)
		}
	}
	if fr.labels == nil {
		fr.labels = map[string]bool{}
	}
	fr.labels[lbl] = true
	defer delete(fr.labels, lbl)
	list := append([]ast.Stmt{ls.Stmt}, rest...)
	return fr.execBlock(head, list)
}

func (fr *Frame) checkLabelInv(st *State, lbl, phase string, n ast.Node) {
	if fr.fc == nil {
		return
	}
	for i, c := range fr.fc.LabelInv[lbl] {
		g := fr.evalSpecBool(st, c.Expr, nil, fr.entry)
		fr.e.oblige(fr, st, fmt.Sprintf("labelinv.%s#%d-%s", lbl, i+1, phase), "", 0, g, n, c, "")
	}
	if phase == "preserve" {
		for _, k := range fr.labelFrame[lbl] {
			if g := fr.frameFact(st, k); g != nil {
				fr.e.oblige(fr, st, fmt.Sprintf("labelinv.%s.frame-preserve", lbl), shortKey(k), 0, g, n, nil, "implicit loop invariant: only what `modifies` names may change")
			}
		}
	}
}

// ---------------------------------------------------------------------------
// mod-set computation (syntactic, transitive through inlined callees)

func (fr *Frame) modsOf(body *ast.BlockStmt, post ast.Stmt) *modSet {
	var nodes []ast.Node
	nodes = append(nodes, body)
	if post != nil {
		nodes = append(nodes, post)
	}
	return fr.modsOfNodes(nodes)
}

func (fr *Frame) modsOfNodes(nodes []ast.Node) *modSet {
	ms := &modSet{vars: map[*types.Var]bool{}, heap: map[string]*Sort{}, ghosts: map[string]bool{}, at: map[string]map[*types.Var]bool{}, whole: map[string]bool{}}
	visited := map[string]bool{}
	for _, n := range nodes {
		for _, m := range loopReachingNodes(n) {
			fr.e.collectMods(fr.info, m, ms, visited, 0)
		}
	}
	return ms
}

// loopReachingNodes drops the bodies of `if` statements (directly in the loop body, possibly
// nested in other ifs/blocks) that always leave the loop (last statement is an unlabeled
// break or a return): what they modify never flows back to the loop head.
func loopReachingNodes(n ast.Node) []ast.Node {
	switch s := n.(type) {
	case *ast.BlockStmt:
		var out []ast.Node
		for _, st := range s.List {
			out = append(out, loopReachingNodes(st)...)
		}
		return out
	case *ast.IfStmt:
		var out []ast.Node
		if s.Init != nil {
			out = append(out, s.Init)
		}
		out = append(out, s.Cond)
		if !alwaysLeaves(s.Body) {
			out = append(out, loopReachingNodes(s.Body)...)
		}
		if s.Else != nil {
			if eb, ok := s.Else.(*ast.BlockStmt); ok && alwaysLeaves(eb) {
				// dropped
			} else {
				out = append(out, loopReachingNodes(s.Else)...)
			}
		}
		return out
	}
	return []ast.Node{n}
}

func alwaysLeaves(b *ast.BlockStmt) bool {
	if len(b.List) == 0 {
		return false
	}
	switch l := b.List[len(b.List)-1].(type) {
	case *ast.ReturnStmt:
		return true
	case *ast.BranchStmt:
		return l.Tok == token.BREAK && l.Label == nil
	}
	return false
}

func (e *Engine) collectMods(info *types.Info, n ast.Node, ms *modSet, visited map[string]bool, depth int) {
	markLHS := func(x ast.Expr) {
		e.markWritten(info, x, ms)
	}
	ast.Inspect(n, func(n ast.Node) bool {
		switch s := n.(type) {
		case *ast.AssignStmt:
			for _, l := range s.Lhs {
				markLHS(l)
			}
		case *ast.IncDecStmt:
			markLHS(s.X)
		case *ast.RangeStmt:
			if s.Key != nil {
				markLHS(s.Key)
			}
			if s.Value != nil {
				markLHS(s.Value)
			}
		case *ast.DeclStmt:
			if gd, ok := s.Decl.(*ast.GenDecl); ok {
				for _, sp := range gd.Specs {
					if vs, ok := sp.(*ast.ValueSpec); ok {
						for _, nm := range vs.Names {
							if v, ok := info.Defs[nm].(*types.Var); ok {
								ms.vars[v] = true
							}
						}
					}
				}
			}
		case *ast.CallExpr:
			e.callMods(info, s, ms, visited, depth)
			e.logMods(info, s, ms, depth)
		case *ast.SendStmt:
			// a send appends to the channel log (option chanlog)
			ms.heap["ghost:chanSendN"] = IntSort
			ms.heap["ghost:chanSendCh"] = ArrSort(IntSort, IntSort)
			ms.heap["ghost:chanSendVal"] = ArrSort(IntSort, IntSort)
		case *ast.GoStmt:
			e.logMods(info, s.Call, ms, depth)
		}
		return true
	})
}

// logMods: the function-local ghost logs (option calllog / retlog / fvlog of the function under contract) that a
// call written in that function appends to: they change in a loop that contains the call.
func (e *Engine) logMods(info *types.Info, call *ast.CallExpr, ms *modSet, depth int) {
	fc := e.cs.Funcs[e.curFn]
	if fc == nil || depth != 0 {
		return
	}
	if fn := e.staticCallee(info, call); fn != nil {
		for _, n := range strings.Fields(fc.Options["calllog"]) {
			if n == fn.Name() {
				ms.heap["ghost:callN"] = IntSort
				ms.heap["ghost:callName"] = ArrSort(IntSort, StrSort)
				ms.heap["ghost:callArg0"] = ArrSort(IntSort, IntSort)
				ms.heap["ghost:callArg1"] = ArrSort(IntSort, IntSort)
			}
		}
		for _, n := range strings.Fields(fc.Options["retlog"]) {
			if n == fn.Name() {
				sig := fn.Type().(*types.Signature)
				if sig.Results().Len() > 0 {
					ms.heap["ghost:retlog_"+n] = e.sortOf(sig.Results().At(sig.Results().Len() - 1).Type())
				}
			}
		}
		return
	}
	if fc.Options["fvlog"] != "" {
		// a call through a function value is recorded by name (option fvlog)
		ms.heap["ghost:fvN"] = IntSort
		ms.heap["ghost:fvName"] = ArrSort(IntSort, StrSort)
	}
}

func (e *Engine) markWritten(info *types.Info, x ast.Expr, ms *modSet) {
	switch x := x.(type) {
	case *ast.Ident:
		if x.Name == "_" {
			return
		}
		if v, ok := info.ObjectOf(x).(*types.Var); ok {
			if v.Parent() != nil && v.Parent() == v.Pkg().Scope() {
				ms.heap["global:"+v.Pkg().Path()+"."+v.Name()] = e.sortOf(v.Type())
			} else {
				ms.vars[v] = true
			}
		}
	case *ast.ParenExpr:
		e.markWritten(info, x.X, ms)
	case *ast.IndexExpr:
		e.markWritten(info, x.X, ms)
	case *ast.StarExpr:
		// *p = v : treat as write to everything p may point to -> not supported precisely
		e.markWritten(info, x.X, ms)
	case *ast.SelectorExpr:
		sel := info.Selections[x]
		if sel == nil {
			// qualified package var
			if v, ok := info.Uses[x.Sel].(*types.Var); ok {
				ms.heap["global:"+v.Pkg().Path()+"."+v.Name()] = e.sortOf(v.Type())
			}
			return
		}
		// walk the path; a write to a field of a struct *value* stored in a local is a write to the local
		bt := info.TypeOf(x.X)
		if _, isPtr := bt.Underlying().(*types.Pointer); !isPtr && isStructVal(bt) {
			// base is a struct value: local var / field of heap object
			if !e.isHeapResident(info, x.X) {
				e.markWritten(info, x.X, ms)
				return
			}
		}
		var baseVar *types.Var
		if id, ok := x.X.(*ast.Ident); ok && len(sel.Index()) == 1 {
			baseVar, _ = info.ObjectOf(id).(*types.Var)
			if baseVar != nil && baseVar.Pkg() != nil && baseVar.Parent() == baseVar.Pkg().Scope() {
				baseVar = nil
			}
		}
		e.fieldKeysOfSelection(sel, func(key string, f *types.Var) {
			e.addFieldMods(key, f, ms)
			if ms.at == nil {
				return
			}
			if baseVar != nil && !isStructVal(f.Type()) {
				if ms.at[key] == nil {
					ms.at[key] = map[*types.Var]bool{}
				}
				ms.at[key][baseVar] = true
			} else {
				ms.whole[key] = true
			}
		})
	}
}

func (e *Engine) addFieldMods(key string, f *types.Var, ms *modSet) {
	if isSyncType(f.Type()) {
		return
	}
	if isStructVal(f.Type()) {
		st := f.Type().Underlying().(*types.Struct)
		owner := typeName(f.Type())
		for i := 0; i < st.NumFields(); i++ {
			e.addFieldMods(owner+"."+st.Field(i).Name(), st.Field(i), ms)
		}
		return
	}
	ms.heap[key] = e.fieldHeapSort(f)
}

// isHeapResident: does expression x (of struct type) denote a struct living in the heap?
func (e *Engine) isHeapResident(info *types.Info, x ast.Expr) bool {
	switch x := x.(type) {
	case *ast.ParenExpr:
		return e.isHeapResident(info, x.X)
	case *ast.StarExpr:
		return true
	case *ast.SelectorExpr:
		bt := info.TypeOf(x.X)
		if bt == nil {
			return false
		}
		if _, isPtr := bt.Underlying().(*types.Pointer); isPtr {
			return true
		}
		return e.isHeapResident(info, x.X)
	case *ast.Ident:
		return false
	}
	return false
}

// fieldKeysOfSelection reports the heap key of the last field selected.
func (e *Engine) fieldKeysOfSelection(sel *types.Selection, f func(key string, fv *types.Var)) {
	t := sel.Recv()
	idx := sel.Index()
	for i, ix := range idx {
		if p, ok := t.Underlying().(*types.Pointer); ok {
			t = p.Elem()
		}
		st, ok := t.Underlying().(*types.Struct)
		if !ok {
			return
		}
		fld := st.Field(ix)
		if i == len(idx)-1 {
			if sel.Kind() == types.FieldVal {
				f(typeName(t)+"."+fld.Name(), fld)
			}
			return
		}
		t = fld.Type()
	}
}

func (e *Engine) callMods(info *types.Info, call *ast.CallExpr, ms *modSet, visited map[string]bool, depth int) {
	// builtins that write through their first argument
	if id, ok := call.Fun.(*ast.Ident); ok {
		if b, ok := info.Uses[id].(*types.Builtin); ok {
			if b.Name() == "delete" || b.Name() == "copy" {
				e.markWritten(info, call.Args[0], ms)
			}
			return
		}
	}
	fn := e.staticCallee(info, call)
	if fn != nil && (fn.Name() == "Add" || fn.Name() == "Done") {
		if name := wgLocalName(info, call); name != "" {
			ms.heap[wgGhostKey(name)] = IntSort
			return
		}
	}
	if fn == nil {
		// interface method: use the interface contract's modifies
		if sel, ok := call.Fun.(*ast.SelectorExpr); ok {
			if s := info.Selections[sel]; s != nil {
				if m, ok := s.Obj().(*types.Func); ok {
					if fc := e.ifaceContract(s.Recv(), m); fc != nil {
						e.contractMods(fc, ms)
					}
				}
			}
		}
		return
	}
	key := funcKey(fn)
	if fc := e.cs.Funcs[key]; fc != nil {
		e.contractMods(fc, ms)
		return
	}
	fi := e.funcs[key]
	if fi == nil || visited[key] || depth > 6 {
		return
	}
	visited[key] = true
	sub := &modSet{vars: map[*types.Var]bool{}, heap: map[string]*Sort{}, ghosts: ms.ghosts}
	e.collectMods(fi.Pkg.TypesInfo, fi.Decl.Body, sub, visited, depth+1)
	for k, s := range sub.heap {
		ms.heap[k] = s
		if ms.whole != nil {
			ms.whole[k] = true
		}
	}
}

// contractMods adds the heap keys named by a contract's modifies clause (coarsely: whole field arrays).
func (e *Engine) contractMods(fc *FuncContract, ms *modSet) {
	if !fc.HasMod {
		return
	}
	for _, m := range fc.Modifies {
		for _, k := range e.modKeys(fc, m) {
			ms.heap[k.key] = k.sort
			if ms.whole != nil && !strings.HasPrefix(k.key, "ghost:") {
				ms.whole[k.key] = true
			}
		}
	}
}

func exprString(x ast.Expr) string {
	switch x := x.(type) {
	case *ast.Ident:
		return x.Name
	case *ast.SelectorExpr:
		return exprString(x.X) + "." + x.Sel.Name
	case *ast.StarExpr:
		return "*" + exprString(x.X)
	case *ast.ParenExpr:
		return "(" + exprString(x.X) + ")"
	case *ast.IndexExpr:
		return exprString(x.X) + "[...]"
	case *ast.CallExpr:
		return exprString(x.Fun) + "(...)"
	case *ast.FuncLit:
		return "func(...)"
	}
	return fmt.Sprintf("%T", x)
}

// writesMap: does the loop's mod-set include the ranged map expression x?
func (fr *Frame) writesMap(x ast.Expr, ms *modSet) bool {
	probe := &modSet{vars: map[*types.Var]bool{}, heap: map[string]*Sort{}, ghosts: map[string]bool{}}
	fr.e.markWritten(fr.info, x, probe)
	for v := range probe.vars {
		if ms.vars[v] {
			return true
		}
	}
	for k := range probe.heap {
		if _, ok := ms.heap[k]; ok {
			return true
		}
	}
	return false
}

// execTypeSwitch: `switch [v :=] x.(type) { case T...: }` - cases are tried in order.
func (fr *Frame) execTypeSwitch(st *State, s *ast.TypeSwitchStmt) []Outcome {
	if s.Init != nil {
		outs := fr.execStmt(st, s.Init)
		if len(outs) != 1 || outs[0].kind != oNormal {
			fr.unsupported(s, "switch-init with control flow")
		}
		st = outs[0].st
	}
	var ta *ast.TypeAssertExpr
	var bindID *ast.Ident
	switch a := s.Assign.(type) {
	case *ast.ExprStmt:
		ta, _ = a.X.(*ast.TypeAssertExpr)
	case *ast.AssignStmt:
		ta, _ = a.Rhs[0].(*ast.TypeAssertExpr)
		bindID, _ = a.Lhs[0].(*ast.Ident)
	}
	if ta == nil {
		fr.unsupported(s, "type switch form")
	}
	x := fr.eval(st, ta.X)
	var out []Outcome
	rest := st
	var deflt *ast.CaseClause
	for _, c := range s.Body.List {
		cc := c.(*ast.CaseClause)
		if cc.List == nil {
			deflt = cc
			continue
		}
		var conds []*Term
		var single types.Type
		for _, tx := range cc.List {
			if id, ok := tx.(*ast.Ident); ok && id.Name == "nil" {
				conds = append(conds, Eq(x, IntLit(0)))
				continue
			}
			tt := fr.info.TypeOf(tx)
			single = tt
			conds = append(conds, fr.dynIs(x, tt))
		}
		cond := Or(conds...)
		t := rest.Clone()
		t.Branch(cond)
		if bindID != nil {
			if obj, ok := fr.info.Implicits[cc].(*types.Var); ok {
				if len(cc.List) == 1 && single != nil && fr.e.sortOf(single) != IntSort {
					un := "unbox$" + smtIdent(fr.e.sortOf(single).Name)
					DeclFunc(un, fr.e.sortOf(single), IntSort)
					t.vars[obj] = App(un, x)
				} else {
					t.vars[obj] = x
				}
			}
		}
		if !t.Infeasible() {
			for _, o := range fr.execBlock(t, cc.Body) {
				if o.kind == oBreak && o.label == "" {
					o.kind = oNormal
				}
				out = append(out, o)
			}
		}
		rest = rest.Clone()
		rest.Branch(Not(cond))
	}
	if deflt != nil {
		if bindID != nil {
			if obj, ok := fr.info.Implicits[deflt].(*types.Var); ok {
				rest.vars[obj] = x
			}
		}
		for _, o := range fr.execBlock(rest, deflt.Body) {
			if o.kind == oBreak && o.label == "" {
				o.kind = oNormal
			}
			out = append(out, o)
		}
	} else {
		out = append(out, Outcome{oNormal, "", rest})
	}
	return fr.mergeNormals(out)
}
