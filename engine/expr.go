package main

// Symbolic executor: expressions and locations.

import (
	"go/ast"
	"go/constant"
	"go/token"
	"go/types"
	"math/big"
	"strings"
)

func (fr *Frame) constTerm(tv types.TypeAndValue, t types.Type) *Term {
	e := fr.e
	v := tv.Value
	switch v.Kind() {
	case constant.Bool:
		return BoolLit(constant.BoolVal(v))
	case constant.String:
		return e.strLit(constant.StringVal(v))
	case constant.Int:
		if b, ok := t.Underlying().(*types.Basic); ok && b.Info()&types.IsFloat != 0 {
			return Var("float$"+smtIdent(v.ExactString()), e.sortOf(t))
		}
		n, _ := new(big.Int).SetString(v.ExactString(), 10)
		return BigLit(n)
	case constant.Float:
		return Var("float$"+smtIdent(v.ExactString()), e.sortOf(t))
	}
	return nil
}

// evalAs evaluates x for assignment to a location of type want (handles untyped nil and interface conversion).
func (fr *Frame) evalAs(st *State, x ast.Expr, want types.Type) *Term {
	if id, ok := x.(*ast.Ident); ok && id.Name == "nil" {
		if _, isNil := fr.info.Uses[id].(*types.Nil); isNil {
			return fr.e.zeroValue(want)
		}
	}
	v := fr.eval(st, x)
	if want != nil {
		ws := fr.e.sortOf(want)
		if ws != v.S {
			// struct value into interface: box
			if ws == IntSort && v.S.Kind == SData {
				DeclFunc("box$"+v.S.Name, IntSort, v.S)
				return App("box$"+v.S.Name, v)
			}
			if ws == IntSort && v.S == StrSort {
				DeclFunc("box$Str", IntSort, StrSort)
				return App("box$Str", v)
			}
			if ws == IntSort && v.S == BoolSort {
				return Ite(v, IntLit(1), IntLit(2))
			}
			fr.unsupported(x, "cannot convert %s to %s", v.S, ws)
		}
	}
	return v
}

func (fr *Frame) eval(st *State, x ast.Expr) *Term {
	e := fr.e
	if tv, ok := fr.info.Types[x]; ok && tv.Value != nil {
		if t := fr.constTerm(tv, tv.Type); t != nil {
			return t
		}
	}
	switch x := x.(type) {
	case *ast.ParenExpr:
		return fr.eval(st, x.X)
	case *ast.BasicLit:
		fr.unsupported(x, "literal %s", x.Value)
	case *ast.Ident:
		if x.Name == "nil" {
			t := fr.info.TypeOf(x)
			if t == nil || t == types.Typ[types.UntypedNil] {
				return IntLit(0)
			}
			return e.zeroValue(t)
		}
		if x.Name == "true" {
			return True
		}
		if x.Name == "false" {
			return False
		}
		if fn, ok := fr.info.ObjectOf(x).(*types.Func); ok {
			return fr.funcValue(st, fn)
		}
		return e.load(st, fr.evalLoc(st, x))
	case *ast.SelectorExpr:
		fr.elemPtrCheck(st, x)
		if sel := fr.info.Selections[x]; sel != nil && sel.Kind() == types.MethodVal {
			// a method value is an opaque non-nil function value (calling it is a call through a function value)
			fr.evalIgnore(st, x.X)
			v := Fresh("mv$"+x.Sel.Name, e.sortOf(fr.info.TypeOf(x)))
			if v.S == IntSort {
				st.Assume(Neq(v, IntLit(0)))
			}
			return v
		}
		if fn, ok := fr.info.ObjectOf(x.Sel).(*types.Func); ok && fr.info.Selections[x] == nil {
			return fr.funcValue(st, fn)
		}
		l := fr.evalLoc(st, x)
		v := e.load(st, l)
		fr.assumeTypeFacts(st, v, fr.info.TypeOf(x))
		return v
	case *ast.StarExpr:
		l := fr.evalLoc(st, x)
		return e.load(st, l)
	case *ast.IndexExpr:
		bt := fr.info.TypeOf(x.X)
		if _, isMap := bt.Underlying().(*types.Map); isMap {
			m := fr.eval(st, x.X)
			k := fr.evalAs(st, x.Index, bt.Underlying().(*types.Map).Key())
			et := bt.Underlying().(*types.Map).Elem()
			v := Ite(Select(Acc(m, "dom"), k), Select(Acc(m, "val"), k), e.zeroValue(et))
			fr.assumeTypeFacts(st, v, et)
			return v
		}
		l := fr.evalLoc(st, x)
		v := e.load(st, l)
		fr.assumeTypeFacts(st, v, fr.info.TypeOf(x))
		return v
	case *ast.SliceExpr:
		return fr.evalSliceExpr(st, x)
	case *ast.UnaryExpr:
		switch x.Op {
		case token.NOT:
			return Not(fr.eval(st, x.X))
		case token.SUB:
			return fr.wrapInt(st, Neg(fr.eval(st, x.X)), fr.info.TypeOf(x), x, "neg")
		case token.ADD:
			return fr.eval(st, x.X)
		case token.AND:
			return fr.evalAddrOf(st, x)
		case token.ARROW:
			t := fr.info.TypeOf(x)
			v := Fresh("recv", e.sortOf(t))
			fr.assumeTypeFacts(st, v, t)
			return v
		}
		fr.unsupported(x, "unary %s", x.Op)
	case *ast.BinaryExpr:
		if x.Op == token.LAND {
			a := fr.eval(st, x.X)
			if a.IsFalse() {
				return False
			}
			// short-circuit: evaluate the right operand under the assumption a
			s2 := st.Clone()
			s2.Assume(a)
			b := fr.eval(s2, x.Y)
			fr.absorb(st, s2, a)
			return And(a, b)
		}
		if x.Op == token.LOR {
			a := fr.eval(st, x.X)
			if a.IsTrue() {
				return True
			}
			s2 := st.Clone()
			s2.Assume(Not(a))
			b := fr.eval(s2, x.Y)
			fr.absorb(st, s2, Not(a))
			return Or(a, b)
		}
		lt := fr.info.TypeOf(x.X)
		rt := fr.info.TypeOf(x.Y)
		var a, b *Term
		if isNilIdent(x.X) {
			b = fr.eval(st, x.Y)
			a = fr.nilOf(st, rt, b)
			return fr.nilCmp(st, x.Op, b, a, rt, x)
		} else if isNilIdent(x.Y) {
			a = fr.eval(st, x.X)
			b = fr.nilOf(st, lt, a)
			return fr.nilCmp(st, x.Op, a, b, lt, x)
		}
		a = fr.eval(st, x.X)
		b = fr.eval(st, x.Y)
		// mixed interface / concrete comparison
		if a.S != b.S {
			if a.S == IntSort && b.S != IntSort {
				b = fr.evalAs(st, x.Y, lt)
			} else if b.S == IntSort && a.S != IntSort {
				a = fr.evalAs(st, x.X, rt)
			}
		}
		return fr.binop(st, x.Op, a, b, lt, x)
	case *ast.CallExpr:
		rs := fr.evalCall(st, x, 1)
		if len(rs) != 1 {
			fr.unsupported(x, "call used as single value returns %d values", len(rs))
		}
		return rs[0]
	case *ast.CompositeLit:
		return fr.evalComposite(st, x)
	case *ast.TypeAssertExpr:
		rs := fr.evalTypeAssert(st, x, false)
		return rs[0]
	case *ast.FuncLit:
		// function value: opaque reference. Under `option execlits` the body of a literal that is only
		// passed on or returned is also executed once, detached, with arbitrary arguments, so that
		// the call-site clauses of the enclosing contract cover it.
		if fr.top != nil && fr.top.fc != nil && fr.top.fc.Options["execlits"] != "" && !fr.inClosure {
			fr.execDetachedClosure(st, x)
		}
		return Fresh("closure", IntSort)
	case *ast.KeyValueExpr:
		fr.unsupported(x, "key-value outside composite")
	}
	fr.unsupported(x, "expression %T", x)
	return nil
}

// absorb pulls facts discovered while evaluating a short-circuit operand back into st (guarded by cond).
func (fr *Frame) absorb(st, s2 *State, cond *Term) {
	L := commonPrefix(st.path, s2.path)
	for _, p := range s2.path[L:] {
		if p == cond {
			continue
		}
		st.Assume(Implies(cond, p))
	}
	for k, v := range s2.heap {
		if st.heap[k] != v {
			if old, ok := st.heap[k]; ok {
				st.heap[k] = Ite(cond, v, old)
			} else {
				st.heap[k] = v
			}
		}
	}
}

func isNilIdent(x ast.Expr) bool {
	id, ok := x.(*ast.Ident)
	return ok && id.Name == "nil"
}

func (fr *Frame) nilOf(st *State, t types.Type, like *Term) *Term {
	return fr.e.zeroValue(t)
}

func (fr *Frame) nilCmp(st *State, op token.Token, v, nilv *Term, t types.Type, n ast.Node) *Term {
	var isNil, nilAx *Term
	switch t.Underlying().(type) {
	case *types.Slice:
		isNil = Eq(Acc(v, "len"), IntLit(0))
		fr.e.note("assumption: `slice == nil` is modelled as len == 0")
	case *types.Map:
		isNil = fr.e.isNilMap(v)
		nilAx = Implies(isNil, And(Eq(Acc(v, "dom"), ConstArr(v.S.Fields[1].S, False)), Eq(Acc(v, "card"), IntLit(0))))
	default:
		isNil = Eq(v, IntLit(0))
	}
	if nilAx != nil && st != nil {
		st.Assume(nilAx)
	}
	if op == token.EQL {
		return isNil
	}
	return Not(isNil)
}

func (e *Engine) isNilMap(m *Term) *Term {
	name := "nilmap$" + m.S.Name
	DeclFunc(name, BoolSort, m.S)
	return App(name, m)
}

func (fr *Frame) assumeTypeFacts(st *State, v *Term, t types.Type) {
	if t == nil {
		return
	}
	f := fr.e.typeFacts(v, t, st)
	if !f.IsTrue() && v.Op != "lit" && v.Op != "ctor" {
		// avoid flooding: only add for select/acc/var terms
		key := "tf:" + v.String()
		for _, p := range st.path {
			if p == f || (len(p.String()) == len(f.String()) && p.String() == f.String()) {
				return
			}
		}
		_ = key
		st.Assume(f)
	}
}

// wrapInt applies Go's wrap-around for unsigned/narrow integer types and records overflow
// obligations for signed 64-bit arithmetic when the function asks for them.
func (fr *Frame) wrapInt(st *State, v *Term, t types.Type, n ast.Node, what string) *Term {
	lo, hi, ok := intRange(t)
	if !ok {
		return v
	}
	b := t.Underlying().(*types.Basic)
	if b.Info()&types.IsUnsigned != 0 {
		if _, isLit := v.IntVal(); isLit {
			return v
		}
		// exact modular semantics
		h, _ := new(big.Int).SetString(hi, 10)
		mod := BigLit(new(big.Int).Add(h, big.NewInt(1)))
		return mk("mod", IntSort, v, mod)
	}
	if fr.top.fc != nil && fr.top.fc.Options["overflow"] != "" {
		fr.e.oblige(fr, st, "overflow", "", fr.site("overflow", n), And(Le(lit(lo), v), Le(v, lit(hi))), n, nil, what)
		return v
	}
	return v
}

func (fr *Frame) binop(st *State, op token.Token, a, b *Term, t types.Type, n ast.Node) *Term {
	switch op {
	case token.EQL:
		return Eq(a, b)
	case token.NEQ:
		return Neq(a, b)
	}
	if a.S == StrSort {
		if op == token.ADD {
			DeclFunc("go.str.cat", StrSort, StrSort, StrSort)
			return App("go.str.cat", a, b)
		}
		fr.unsupported(n, "string operator %s", op)
	}
	if a.S != IntSort || b.S != IntSort {
		if a.S.Kind == SUn {
			// floats etc: uninterpreted result
			rt := fr.info.TypeOf(n.(ast.Expr))
			return Fresh("fop", fr.e.sortOf(rt))
		}
		fr.unsupported(n, "operator %s on %s", op, a.S)
	}
	switch op {
	case token.ADD:
		return fr.wrapInt(st, Add(a, b), t, n, "+")
	case token.SUB:
		return fr.wrapInt(st, Sub(a, b), t, n, "-")
	case token.MUL:
		return fr.wrapInt(st, Mul(a, b), t, n, "*")
	case token.QUO:
		fr.e.oblige(fr, st, "divzero", "", fr.site("divzero", n), Neq(b, IntLit(0)), n, nil, "division")
		return GoDiv(a, b)
	case token.REM:
		fr.e.oblige(fr, st, "divzero", "", fr.site("divzero", n), Neq(b, IntLit(0)), n, nil, "modulo")
		return GoMod(a, b)
	case token.LSS:
		return Lt(a, b)
	case token.LEQ:
		return Le(a, b)
	case token.GTR:
		return Gt(a, b)
	case token.GEQ:
		return Ge(a, b)
	case token.SHL:
		if k, ok := b.IntVal(); ok && k.IsInt64() && k.Int64() < 63 {
			return fr.wrapInt(st, Mul(a, BigLit(new(big.Int).Lsh(big.NewInt(1), uint(k.Int64())))), t, n, "<<")
		}
	case token.SHR:
		if k, ok := b.IntVal(); ok && k.IsInt64() && k.Int64() < 63 {
			return mk("div", IntSort, a, BigLit(new(big.Int).Lsh(big.NewInt(1), uint(k.Int64()))))
		}
	case token.AND, token.OR, token.XOR, token.AND_NOT:
		name := "bit" + smtIdent(op.String())
		DeclFunc(name, IntSort, IntSort, IntSort)
		return App(name, a, b)
	}
	fr.unsupported(n, "binary operator %s", op)
	return nil
}

// ---------------------------------------------------------------------------
// Locations

func (fr *Frame) evalLoc(st *State, x ast.Expr) *Loc {
	e := fr.e
	switch x := x.(type) {
	case *ast.ParenExpr:
		return fr.evalLoc(st, x.X)
	case *ast.Ident:
		if x.Name == "_" {
			return &Loc{Kind: LBlank}
		}
		obj := fr.info.ObjectOf(x)
		v, ok := obj.(*types.Var)
		if !ok {
			fr.unsupported(x, "identifier %s is not a variable", x.Name)
		}
		if v.Pkg() != nil && v.Parent() == v.Pkg().Scope() {
			return &Loc{Kind: LGlobal, Key: "global:" + v.Pkg().Path() + "." + v.Name(), T: v.Type()}
		}
		if fr.top.fn.boxed[v] || fr.fn.boxed[v] {
			ref, ok := st.vars[v]
			if !ok {
				ref = e.alloc(st, v.Type(), v.Name())
				st.vars[v] = ref
			}
			if isStructVal(v.Type()) {
				return &Loc{Kind: LObj, Ref: ref, T: v.Type()}
			}
			return e.cellLoc(ref, v.Type())
		}
		return &Loc{Kind: LVar, V: v, T: v.Type()}
	case *ast.SelectorExpr:
		sel := fr.info.Selections[x]
		if sel == nil {
			// package-qualified variable
			if v, ok := fr.info.Uses[x.Sel].(*types.Var); ok {
				return &Loc{Kind: LGlobal, Key: "global:" + v.Pkg().Path() + "." + v.Name(), T: v.Type()}
			}
			fr.unsupported(x, "qualified identifier %s", x.Sel.Name)
		}
		if sel.Kind() != types.FieldVal {
			fr.unsupported(x, "selector %s is not a field", x.Sel.Name)
		}
		base := fr.baseLoc(st, x.X)
		return fr.walkFields(st, base, sel.Recv(), sel.Index(), x)
	case *ast.IndexExpr:
		bt := fr.info.TypeOf(x.X)
		switch u := bt.Underlying().(type) {
		case *types.Map:
			base := fr.evalLoc(st, x.X)
			k := fr.evalAs(st, x.Index, u.Key())
			return &Loc{Kind: LIndex, Base: base, Idx: k, T: u.Elem()}
		case *types.Slice:
			base := fr.evalLocOrTemp(st, x.X)
			i := fr.eval(st, x.Index)
			s := e.load(st, base)
			e.oblige(fr, st, "index", "", fr.site("index", x), And(Le(IntLit(0), i), Lt(i, Acc(s, "len"))), x, nil, exprString(x.X))
			return &Loc{Kind: LIndex, Base: base, Idx: i, T: u.Elem()}
		case *types.Array:
			base := fr.evalLocOrTemp(st, x.X)
			i := fr.eval(st, x.Index)
			e.oblige(fr, st, "index", "", fr.site("index", x), And(Le(IntLit(0), i), Lt(i, IntLit(u.Len()))), x, nil, exprString(x.X))
			return &Loc{Kind: LIndex, Base: base, Idx: i, T: u.Elem()}
		case *types.Pointer:
			if a, ok := u.Elem().Underlying().(*types.Array); ok {
				_ = a
				fr.unsupported(x, "index through pointer to array")
			}
		case *types.Basic:
			fr.unsupported(x, "string indexing")
		}
		fr.unsupported(x, "index into %s", bt)
	case *ast.StarExpr:
		pt := fr.info.TypeOf(x.X)
		p := fr.eval(st, x.X)
		el := pt.Underlying().(*types.Pointer).Elem()
		fr.derefCheck(st, p, x)
		if isStructVal(el) {
			return &Loc{Kind: LObj, Ref: p, T: el}
		}
		// pointer to scalar: one heap cell array per pointee sort
		return e.cellLoc(p, el)
	case *ast.CallExpr, *ast.CompositeLit, *ast.TypeAssertExpr, *ast.SliceExpr:
		return fr.tempLoc(st, x)
	}
	fr.unsupported(x, "not addressable: %T", x)
	return nil
}

// tempLoc evaluates a non-addressable expression into a synthetic variable.
func (fr *Frame) tempLoc(st *State, x ast.Expr) *Loc {
	t := fr.info.TypeOf(x)
	v := fr.eval(st, x)
	tv := types.NewVar(x.Pos(), nil, "tmp", t)
	st.vars[tv] = v
	return &Loc{Kind: LVar, V: tv, T: t}
}

func (fr *Frame) evalLocOrTemp(st *State, x ast.Expr) *Loc {
	switch x.(type) {
	case *ast.CallExpr, *ast.CompositeLit, *ast.TypeAssertExpr, *ast.SliceExpr, *ast.BinaryExpr:
		return fr.tempLoc(st, x)
	}
	return fr.evalLoc(st, x)
}

// baseLoc gives the location of the operand of a field selector: either an object in the
// heap (pointer operand or heap-resident struct) or a struct value held somewhere.
func (fr *Frame) baseLoc(st *State, x ast.Expr) *Loc {
	t := fr.info.TypeOf(x)
	if pt, ok := t.Underlying().(*types.Pointer); ok {
		p := fr.eval(st, x)
		fr.derefCheck(st, p, x)
		return &Loc{Kind: LObj, Ref: p, T: pt.Elem()}
	}
	return fr.evalLocOrTemp(st, x)
}

// derefCheck: under `option nilcheck` a dereference of a pointer whose nil-ness is determined inside jiva code
// (result of a jiva call, a local) must be proved non-nil. Parameters, heap-loaded fields and results of
// external calls are assumed non-nil ("optimistic nil", listed in the evidence).
func (fr *Frame) derefCheck(st *State, p *Term, n ast.Node) {
	if fr.top.fc == nil || fr.top.fc.Options["nilcheck"] == "" {
		return
	}
	switch {
	case p.Op == "select", p.Op == "app", p.Op == "lit":
		return
	case p.Op == "var" && (strings.HasPrefix(p.Name, "p$") || strings.HasPrefix(p.Name, "rx$") || strings.HasPrefix(p.Name, "new$") || strings.HasPrefix(p.Name, "recv")):
		return
	}
	goal := Neq(p, IntLit(0))
	if p.Op == "ite" && p.Args[1].Op == "select" && p.Args[2].IsLit() {
		// m[k] of a map of pointers: stored pointers are assumed non-nil; the key must be present
		goal = p.Args[0]
	}
	fr.e.oblige(fr, st, "nil", "", fr.site("nil", n), goal, n, nil, "dereference of "+exprString(n.(ast.Expr)))
	st.Assume(Neq(p, IntLit(0)))
}

// walkFields follows a selection's field path from base.
func (fr *Frame) walkFields(st *State, base *Loc, recv types.Type, idx []int, n ast.Node) *Loc {
	e := fr.e
	cur := base
	t := recv
	for _, ix := range idx {
		if pt, ok := t.Underlying().(*types.Pointer); ok {
			// implicit dereference
			if cur.Kind != LObj || !types.Identical(cur.T, pt.Elem()) {
				p := e.load(st, cur)
				fr.derefCheck(st, p, n)
				cur = &Loc{Kind: LObj, Ref: p, T: pt.Elem()}
			}
			t = pt.Elem()
		}
		stt, ok := t.Underlying().(*types.Struct)
		if !ok {
			fr.unsupported(n, "field path through non-struct %s", t)
		}
		f := stt.Field(ix)
		switch cur.Kind {
		case LObj:
			cur = &Loc{Kind: LHeap, Ref: cur.Ref, Owner: typeName(t), Field: f, T: f.Type()}
		case LHeap:
			// struct-valued field of a heap object: flattened sub-object
			sub := e.subRefIn(st, cur.Owner, cur.Field, cur.Ref)
			cur = &Loc{Kind: LHeap, Ref: sub, Owner: typeName(t), Field: f, T: f.Type()}
		default:
			cur = &Loc{Kind: LField, Base: cur, Field: f, T: f.Type()}
		}
		t = f.Type()
	}
	return cur
}

// evalAddrOf handles &x.
func (fr *Frame) evalAddrOf(st *State, x *ast.UnaryExpr) *Term {
	e := fr.e
	switch y := x.X.(type) {
	case *ast.CompositeLit:
		t := fr.info.TypeOf(y)
		v := fr.evalComposite(st, y)
		ref := e.alloc(st, t, "lit")
		if isStructVal(t) {
			e.storeObj(st, ref, t, v)
		} else {
			e.store(st, e.cellLoc(ref, t), v)
		}
		return ref
	case *ast.Ident:
		l := fr.evalLoc(st, y)
		if l.Kind == LObj {
			return l.Ref
		}
		if v, ok := fr.info.ObjectOf(y).(*types.Var); ok && (fr.top.fn.boxed[v] || fr.fn.boxed[v]) {
			return st.vars[v]
		}
		fr.unsupported(x, "address of unboxed variable %s", y.Name)
	case *ast.SelectorExpr:
		l := fr.evalLoc(st, y)
		if l.Kind == LHeap && isStructVal(l.Field.Type()) {
			return e.subRefIn(st, l.Owner, l.Field, l.Ref)
		}
		fr.unsupported(x, "address of field %s", y.Sel.Name)
	case *ast.IndexExpr:
		// &s[i]: a snapshot copy of the element (reads only; writes through it are not propagated)
		t := fr.info.TypeOf(y)
		v := fr.eval(st, y)
		ref := e.alloc(st, t, "elem")
		if isStructVal(t) {
			e.storeObj(st, ref, t, v)
			// remember which slice the pointer points into: a read through it after that slice changed would see the
			// new contents of the slot in Go, not the copy (see elemPtrCheck)
			if bl := fr.sliceLocOf(st, y.X); bl != nil {
				if e.elemPtrs == nil {
					e.elemPtrs = map[string]*elemPtr{}
				}
				e.elemPtrs[ref.Name] = &elemPtr{loc: bl, snap: e.load(st, bl), src: exprString(y)}
			}
			e.note("assumption: &slice[i] is modelled as a copy of the element (no function under contract writes through such a pointer)")
			return ref
		}
	}
	fr.unsupported(x, "address-of %T", x.X)
	return nil
}

func (fr *Frame) evalSliceExpr(st *State, x *ast.SliceExpr) *Term {
	e := fr.e
	bt := fr.info.TypeOf(x.X)
	if b, ok := bt.Underlying().(*types.Basic); ok && b.Info()&types.IsString != 0 {
		s := fr.eval(st, x.X)
		DeclFunc("go.str.sub", StrSort, StrSort, IntSort, IntSort)
		lo, hi := IntLit(0), fr.strLen(s)
		if x.Low != nil {
			lo = fr.eval(st, x.Low)
		}
		if x.High != nil {
			hi = fr.eval(st, x.High)
		}
		e.oblige(fr, st, "slice", "", fr.site("slice", x), And(Le(IntLit(0), lo), Le(lo, hi), Le(hi, fr.strLen(s))), x, nil, "string slice")
		return App("go.str.sub", s, lo, hi)
	}
	if _, ok := bt.Underlying().(*types.Slice); !ok {
		fr.unsupported(x, "slice expression on %s", bt)
	}
	s := fr.eval(st, x.X)
	lo := IntLit(0)
	hi := Acc(s, "len")
	if x.Low != nil {
		lo = fr.eval(st, x.Low)
	}
	if x.High != nil {
		hi = fr.eval(st, x.High)
	}
	// Go permits hi up to cap; capacity is not modelled, so require hi <= len (stricter; flagged when it fails)
	e.oblige(fr, st, "slice", "", fr.site("slice", x), And(Le(IntLit(0), lo), Le(lo, hi), Le(hi, Acc(s, "len"))), x, nil, exprString(x.X))
	return e.subSlice(st, s, lo, hi)
}

// subSlice returns s[lo:hi] as a value.
func (e *Engine) subSlice(st *State, s, lo, hi *Term) *Term {
	if z, ok := lo.IntVal(); ok && z.Sign() == 0 {
		return Ctor(s.S, Acc(s, "arr"), Sub(hi, lo))
	}
	na := Fresh("sub", s.S.Fields[0].S)
	j := Var("j!s", IntSort)
	st.Assume(Forall([]*Term{j}, Eq(Select(na, j), Select(Acc(s, "arr"), Add(j, lo))), []*Term{Select(na, j)}))
	// the same fact triggered from the source array (lets the solver find shifted witnesses)
	if pat := Select(Acc(s, "arr"), Var("j!t", IntSort)); pat.Op == "select" && !strings.Contains(pat.String(), "as const") {
		j2 := Var("j!t", IntSort)
		st.Assume(Forall([]*Term{j2}, Eq(Select(na, Sub(j2, lo)), Select(Acc(s, "arr"), j2)), []*Term{pat}))
	}
	return Ctor(s.S, na, Sub(hi, lo))
}

func (fr *Frame) strLen(s *Term) *Term {
	DeclFunc("go.str.len", IntSort, StrSort)
	return App("go.str.len", s)
}

func (fr *Frame) evalComposite(st *State, x *ast.CompositeLit) *Term {
	e := fr.e
	t := fr.info.TypeOf(x)
	if pt, ok := t.Underlying().(*types.Pointer); ok {
		// elided &T{...} inside a composite literal of pointers
		fake := *x
		v := fr.evalCompositeAs(st, &fake, pt.Elem())
		ref := e.alloc(st, pt.Elem(), "lit")
		if isStructVal(pt.Elem()) {
			e.storeObj(st, ref, pt.Elem(), v)
		}
		return ref
	}
	return fr.evalCompositeAs(st, x, t)
}

func (fr *Frame) evalCompositeAs(st *State, x *ast.CompositeLit, t types.Type) *Term {
	e := fr.e
	switch u := t.Underlying().(type) {
	case *types.Struct:
		s := e.sortOf(t)
		vals := map[string]*Term{}
		for i, el := range x.Elts {
			if kv, ok := el.(*ast.KeyValueExpr); ok {
				name := kv.Key.(*ast.Ident).Name
				var ft types.Type
				for j := 0; j < u.NumFields(); j++ {
					if u.Field(j).Name() == name {
						ft = u.Field(j).Type()
					}
				}
				if isSyncType(ft) {
					continue
				}
				vals[name] = fr.evalAs(st, kv.Value, ft)
			} else {
				if isSyncType(u.Field(i).Type()) {
					continue
				}
				vals[u.Field(i).Name()] = fr.evalAs(st, el, u.Field(i).Type())
			}
		}
		var args []*Term
		for j := 0; j < u.NumFields(); j++ {
			f := u.Field(j)
			if isSyncType(f.Type()) {
				continue
			}
			if v, ok := vals[f.Name()]; ok {
				args = append(args, v)
			} else {
				args = append(args, e.zeroValue(f.Type()))
			}
		}
		if len(args) == 0 {
			args = []*Term{IntLit(0)}
		}
		return Ctor(s, args...)
	case *types.Slice:
		s := e.sortOf(t)
		arr := Fresh("lit", s.Fields[0].S)
		var a *Term = arr
		for i, el := range x.Elts {
			if _, ok := el.(*ast.KeyValueExpr); ok {
				fr.unsupported(x, "keyed slice literal")
			}
			a = Store(a, IntLit(int64(i)), fr.evalAs(st, el, u.Elem()))
		}
		return Ctor(s, a, IntLit(int64(len(x.Elts))))
	case *types.Map:
		s := e.sortOf(t)
		m := Ctor(s, Fresh("mlit", s.Fields[0].S), ConstArr(s.Fields[1].S, False), IntLit(0))
		for _, el := range x.Elts {
			kv := el.(*ast.KeyValueExpr)
			k := fr.evalAs(st, kv.Key, u.Key())
			v := fr.evalAs(st, kv.Value, u.Elem())
			inDom := Select(Acc(m, "dom"), k)
			m = Ctor(s, Store(Acc(m, "val"), k, v), Store(Acc(m, "dom"), k, True), Ite(inDom, Acc(m, "card"), Add(Acc(m, "card"), IntLit(1))))
		}
		st.Assume(Not(e.isNilMap(m)))
		return m
	case *types.Array:
		s := e.sortOf(t)
		var a *Term = ConstArr(s, e.zeroValue(u.Elem()))
		for i, el := range x.Elts {
			a = Store(a, IntLit(int64(i)), fr.evalAs(st, el, u.Elem()))
		}
		return a
	}
	fr.unsupported(x, "composite literal of %s", t)
	return nil
}

// evalTypeAssert returns [value] or [value, ok].
func (fr *Frame) evalTypeAssert(st *State, x *ast.TypeAssertExpr, commaOk bool) []*Term {
	e := fr.e
	v := fr.eval(st, x.X)
	tt := fr.info.TypeOf(x.Type)
	var ok *Term
	if _, isIface := tt.Underlying().(*types.Interface); isIface {
		ok = Neq(v, IntLit(0))
		if !types.IsInterface(tt) || tt.Underlying().(*types.Interface).NumMethods() > 0 {
			// implements check is not modelled: fresh boolean when non-nil
			okv := Fresh("implements", BoolSort)
			ok = And(ok, okv)
		}
	} else if n := namedOf(tt); n != nil && e.sortOf(tt) == IntSort {
		ok = And(Neq(v, IntLit(0)), Eq(e.typeOf(v), IntLit(e.tagOf(typeName(n)))))
	} else {
		// assertion to a value type: unbox (deterministic uninterpreted test and projection)
		ok = fr.dynIs(v, tt)
		s := e.sortOf(tt)
		un := "unbox$" + smtIdent(s.Name)
		DeclFunc(un, s, IntSort)
		val := App(un, v)
		st.Assume(e.typeFacts(val, tt, st))
		if commaOk {
			return []*Term{Ite(ok, val, e.zeroValue(tt)), ok}
		}
		e.oblige(fr, st, "assert", "", fr.site("assert", x), ok, x, nil, "type assertion")
		st.Assume(ok)
		return []*Term{val}
	}
	if commaOk {
		return []*Term{Ite(ok, v, IntLit(0)), ok}
	}
	e.oblige(fr, st, "assert", "", fr.site("assert", x), ok, x, nil, "type assertion "+exprString(x.X))
	st.Assume(ok)
	return []*Term{v}
}

// evalMulti evaluates an expression yielding n values (call, comma-ok forms).
func (fr *Frame) evalMulti(st *State, x ast.Expr, n int) []*Term {
	e := fr.e
	switch y := x.(type) {
	case *ast.ParenExpr:
		return fr.evalMulti(st, y.X, n)
	case *ast.CallExpr:
		rs := fr.evalCall(st, y, n)
		if len(rs) != n {
			fr.unsupported(x, "call returns %d values, want %d", len(rs), n)
		}
		return rs
	case *ast.IndexExpr:
		if n == 2 {
			bt := fr.info.TypeOf(y.X)
			if mt, ok := bt.Underlying().(*types.Map); ok {
				m := fr.eval(st, y.X)
				k := fr.evalAs(st, y.Index, mt.Key())
				okv := Select(Acc(m, "dom"), k)
				v := Ite(okv, Select(Acc(m, "val"), k), e.zeroValue(mt.Elem()))
				fr.assumeTypeFacts(st, v, mt.Elem())
				return []*Term{v, okv}
			}
		}
	case *ast.TypeAssertExpr:
		if n == 2 {
			return fr.evalTypeAssert(st, y, true)
		}
	case *ast.UnaryExpr:
		if y.Op == token.ARROW && n == 2 {
			t := elemOfChan(fr.info.TypeOf(y.X))
			v := Fresh("recv", e.sortOf(t))
			fr.assumeTypeFacts(st, v, t)
			return []*Term{v, Fresh("recvok", BoolSort)}
		}
	}
	fr.unsupported(x, "multi-value expression %T", x)
	return nil
}

func elemOfChan(t types.Type) types.Type {
	if c, ok := t.Underlying().(*types.Chan); ok {
		return c.Elem()
	}
	return types.Typ[types.Int]
}

// dynIs: does interface value v hold dynamic type t?
func (fr *Frame) dynIs(v *Term, t types.Type) *Term {
	e := fr.e
	if n := namedOf(t); n != nil && e.sortOf(t) == IntSort {
		if _, isIface := t.Underlying().(*types.Interface); !isIface {
			return And(Neq(v, IntLit(0)), Eq(e.typeOf(v), IntLit(e.tagOf(typeName(n)))))
		}
	}
	name := "istype$" + smtIdent(t.String())
	DeclFunc(name, BoolSort, IntSort)
	return And(Neq(v, IntLit(0)), App(name, v))
}

// funcValue: a named function used as a value is an opaque constant, distinct from nil.
func (fr *Frame) funcValue(st *State, fn *types.Func) *Term {
	v := Var("fn$"+smtIdent(funcKey(fn)), fr.e.sortOf(fn.Type()))
	if v.S == IntSort {
		st.Assume(Neq(v, IntLit(0)))
	}
	return v
}

type elemPtr struct {
	loc  *Loc
	snap *Term
	src  string
}

// sliceLocOf: the location of a slice-typed expression when it is a variable or a field path (nil otherwise).
func (fr *Frame) sliceLocOf(st *State, x ast.Expr) (l *Loc) {
	defer func() {
		if r := recover(); r != nil {
			l = nil
		}
	}()
	switch ast.Unparen(x).(type) {
	case *ast.Ident, *ast.SelectorExpr:
		return fr.evalLoc(st, x)
	}
	return nil
}

// elemPtrCheck: `p.f` where p was obtained as &s[i]: if s has changed since, the copy the engine reads from is not what
// Go reads (the slot of the backing array): reported as a failed obligation instead of silently using the copy.
func (fr *Frame) elemPtrCheck(st *State, x *ast.SelectorExpr) {
	e := fr.e
	if len(e.elemPtrs) == 0 {
		return
	}
	id, ok := ast.Unparen(x.X).(*ast.Ident)
	if !ok {
		return
	}
	v, ok := fr.info.ObjectOf(id).(*types.Var)
	if !ok {
		return
	}
	cur, ok := st.vars[v]
	if !ok || cur.Op != "var" {
		return
	}
	ep := e.elemPtrs[cur.Name]
	if ep == nil {
		return
	}
	now := e.load(st, ep.loc)
	if now == ep.snap || now.String() == ep.snap.String() {
		return
	}
	e.oblige(fr, st, "slice-alias", "", fr.site("slice-alias", x), Eq(now, ep.snap), x, nil, "read through a pointer taken as &"+ep.src+" after the slice was modified")
}
