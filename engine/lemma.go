package main

// Lemmas: universally quantified facts about ghost functions, proved by induction
// (base and step are separate obligations) and then available as hypotheses.

import (
	"fmt"
	"strings"
)

type Lemma struct {
	Name   string
	By     string // induction variable ("" = no induction: proved directly)
	Clause *Clause
	Pkg    string
	Axiom  *Term
	Funcs  map[string]bool // ghost functions mentioned
	Props  []string
	IsAx   bool
}

func appFuncs(t *Term, out map[string]bool) {
	if t.Op == "app" {
		out[t.Name] = true
	}
	for _, a := range t.Args {
		appFuncs(a, out)
	}
	for _, p := range t.Pats {
		for _, x := range p {
			appFuncs(x, out)
		}
	}
}

// buildLemmas evaluates lemma and axiom clauses; returns obligations for the lemmas.
func (e *Engine) buildLemmas() (lems []*Lemma, obls []*Obligation, err error) {
	defer func() {
		if r := recover(); r != nil {
			if se, ok := r.(specErr); ok {
				err = fmt.Errorf("lemma: %s", se.msg)
				return
			}
			panic(r)
		}
	}()
	mk := func(c *Clause, isAx bool) {
		name := c.Name
		by := ""
		if i := strings.Index(name, " by "); i >= 0 {
			by = strings.TrimSpace(name[i+4:])
			name = strings.TrimSpace(name[:i])
		}
		pkg := e.cs.AxiomPkg[c]
		ctx := &specCtx{e: e, pkgPath: pkg, pure: !isAx, bind: map[string]*SVal{}, st: NewState(), fr: &Frame{e: e}}
		if ctx.pkgPath == "" {
			ctx.pkgPath = jivaMod + "/controller"
		}
		l := &Lemma{Name: name, By: by, Clause: c, Pkg: pkg, Funcs: map[string]bool{}, Props: c.Props, IsAx: isAx}
		x := c.Expr
		if x.Kind != "quant" || x.Name != "forall" {
			t := ctx.eval(x).T
			l.Axiom = t
			appFuncs(t, l.Funcs)
			lems = append(lems, l)
			if !isAx {
				obls = append(obls, &Obligation{Fn: "lemma", Kind: "lemma", Key: "lemma/" + name, Name: "lemma/" + name, Props: c.Props, Goal: t, Clause: c.Text})
			}
			return
		}
		extra := map[string]*SVal{}
		var bound []*Term
		var ind *Term
		for _, v := range x.Vars {
			s, ty := ctx.sortOfTypeStr(v.Type)
			qctr++
			bv := Var(fmt.Sprintf("%s!l%d", smtIdent(v.Name), qctr), s)
			bound = append(bound, bv)
			extra[v.Name] = &SVal{T: bv, Ty: ty}
			if v.Name == by {
				ind = bv
			}
		}
		body := ctx.withBind(extra).eval(x.Args[0]).T
		// patterns: applications of ghost functions that mention bound variables
		l.Axiom = Forall(bound, body, lemmaPatterns(body, bound)...)
		appFuncs(body, l.Funcs)
		lems = append(lems, l)
		if isAx {
			return
		}
		if by == "" {
			obls = append(obls, &Obligation{Fn: "lemma", Kind: "lemma", Key: "lemma/" + name, Name: "lemma/" + name, Props: c.Props, Goal: l.Axiom, Clause: c.Text})
			return
		}
		if ind == nil {
			panic(specErr{"lemma " + name + ": induction variable " + by + " is not quantified"})
		}
		var others []*Term
		for _, b := range bound {
			if b != ind {
				others = append(others, b)
			}
		}
		// base: n <= 0 ==> P
		base := Forall(bound, Implies(Le(ind, IntLit(0)), body))
		// step: n > 0 && (forall others. P[n-1]) ==> P   (others skolemised by the outer forall of the negated goal)
		prev := Subst(body, map[string]*Term{ind.Name: Sub(ind, IntLit(1))})
		// rename the others in the hypothesis so the solver can instantiate them freely
		ren := map[string]*Term{}
		var others2 []*Term
		for _, o := range others {
			qctr++
			n := Var(fmt.Sprintf("%s!h%d", o.Name, qctr), o.S)
			ren[o.Name] = n
			others2 = append(others2, n)
		}
		ih := Forall(others2, Subst(prev, ren), lemmaPatterns(Subst(prev, ren), others2)...)
		step := Forall(bound, Implies(And(Gt(ind, IntLit(0)), ih), body))
		obls = append(obls, &Obligation{Fn: "lemma", Kind: "lemma", Key: "lemma/" + name + "/base", Name: "lemma/" + name + "/base", Props: c.Props, Goal: base, Clause: c.Text, Descr: "induction base"})
		obls = append(obls, &Obligation{Fn: "lemma", Kind: "lemma", Key: "lemma/" + name + "/step", Name: "lemma/" + name + "/step", Props: c.Props, Goal: step, Clause: c.Text, Descr: "induction step"})
	}
	for _, c := range e.cs.Lemmas {
		mk(c, false)
	}
	for _, c := range e.cs.Axioms {
		mk(c, true)
	}
	return
}

// lemmaPatterns: the applications of ghost functions in body that cover all bound variables (multi-pattern otherwise).
func lemmaPatterns(body *Term, bound []*Term) [][]*Term {
	var apps []*Term
	seen := map[string]bool{}
	var walk func(t *Term)
	walk = func(t *Term) {
		if t.Op == "app" && strings.HasPrefix(t.Name, "gf$") && !seen[t.String()] {
			seen[t.String()] = true
			apps = append(apps, t)
		}
		for _, a := range t.Args {
			walk(a)
		}
	}
	walk(body)
	mentions := func(t *Term, v *Term) bool { return strings.Contains(" "+strings.NewReplacer("(", " ", ")", " ").Replace(t.String())+" ", " "+v.Name+" ") }
	// single app covering all bound vars, preferring the largest
	var best *Term
	for _, a := range apps {
		all := true
		for _, b := range bound {
			if !mentions(a, b) {
				all = false
			}
		}
		if all && (best == nil || a.Size() > best.Size()) {
			best = a
		}
	}
	if best != nil {
		return [][]*Term{{best}}
	}
	return nil
}

// lemmasFor returns lemma axioms relevant to an obligation (all their ghost functions occur in it).
func lemmasFor(lems []*Lemma, o *Obligation) []*Term {
	used := map[string]bool{}
	for _, h := range o.Hyps {
		appFuncs(h, used)
	}
	appFuncs(o.Goal, used)
	// include functions reachable through definitions
	changed := true
	for changed {
		changed = false
		for n := range used {
			if f := funcReg[n]; f != nil && f.Body != nil {
				sub := map[string]bool{}
				appFuncs(f.Body, sub)
				for k := range sub {
					if !used[k] {
						used[k] = true
						changed = true
					}
				}
			}
		}
	}
	var out []*Term
	for _, l := range lems {
		if o.Kind == "lemma" && strings.HasPrefix(o.Key, "lemma/"+l.Name) {
			continue
		}
		ok := true
		if len(l.Funcs) == 0 {
			// axiom about plain symbols: relevant when one of them occurs
			ok = false
			ss := newSymSet()
			ss.collect(l.Axiom, nil)
			vs := newSymSet()
			for _, h := range o.Hyps {
				vs.collect(h, nil)
			}
			vs.collect(o.Goal, nil)
			for v := range ss.vars {
				if _, has := vs.vars[v]; has && !strings.HasPrefix(v, "str$") {
					ok = true
				}
			}
		}
		for f := range l.Funcs {
			if strings.HasPrefix(f, "gf$") && !used[f] {
				ok = false
			}
		}
		if ok {
			out = append(out, l.Axiom)
		}
	}
	return out
}
