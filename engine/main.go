package main

import (
	"go/token"
	"go/types"
	"encoding/json"
	"flag"
	"fmt"
	"os"
	"path/filepath"
	"sort"
	"strings"
	"time"
)

type knownFinding struct {
	Property   string `json:"property"`
	Obligation string `json:"obligation"` // obligation key
	WhatFails  string `json:"what_fails"`
	Status     string `json:"status"` // known | fixed
	Commit     string `json:"commit,omitempty"`
	Finding    string `json:"finding,omitempty"`
}

type propMeta struct {
	Assumptions []string `json:"assumptions"`
	NotDecided  []string `json:"not_decided"`
}

func main() {
	if len(os.Args) < 2 {
		fmt.Fprintln(os.Stderr, "usage: jv check|list|baseline [flags]")
		os.Exit(2)
	}
	cmd := os.Args[1]
	fs := flag.NewFlagSet(cmd, flag.ExitOnError)
	repo := fs.String("repo", "/repo", "repository root")
	verif := fs.String("verif", "/verif", "verif root")
	prop := fs.String("property", "all", "property id (or all)")
	tier := fs.String("tier", "quick", "quick|thorough")
	only := fs.String("func", "", "only functions whose key contains this substring")
	verbose := fs.Bool("v", false, "verbose")
	keep := fs.Bool("keep", false, "keep SMT files of proved obligations")
	noEvidence := fs.Bool("no-evidence", false, "do not write evidence")
	fs.Parse(os.Args[2:])

	t0 := time.Now()
	replayRepo = *repo
	e := NewEngine(*repo)
	e.verbose = *verbose
	if err := e.Load(); err != nil {
		fmt.Fprintln(os.Stderr, "load:", err)
		os.Exit(2)
	}
	if err := e.LoadContracts(filepath.Join(*verif, "spec")); err != nil {
		fmt.Fprintln(os.Stderr, "contracts:", err)
		os.Exit(2)
	}
	loadRenames(filepath.Join(*verif, "locals.baseline.json"), e)
	loadS := time.Since(t0).Seconds()

	switch cmd {
	case "list":
		var keys []string
		for k, fc := range e.cs.Funcs {
			if !fc.Trusted {
				keys = append(keys, k)
			}
		}
		sort.Strings(keys)
		for _, k := range keys {
			fmt.Println(shortKey(k), e.cs.Funcs[k].Props)
		}
		return
	case "check", "baseline":
	default:
		fmt.Fprintln(os.Stderr, "unknown command", cmd)
		os.Exit(2)
	}

	// select functions
	var keys []string
	stale := []string{}
	for k, fc := range e.cs.Funcs {
		if fc.Trusted {
			continue
		}
		if e.funcs[k] == nil {
			stale = append(stale, fmt.Sprintf("stale-contract: %s (%s:%d) names no function in the tree", shortKey(k), fc.File, fc.Line))
			continue
		}
		if *prop != "all" && !hasProp(fc, *prop) && !e.releasesTaggedLock(k, *prop) {
			continue
		}
		if *only != "" && !strings.Contains(k, *only) {
			continue
		}
		keys = append(keys, k)
	}
	sort.Strings(keys)
	var reports []funcReport
	// modular dependency closure: a function tagged with the property relies on the contracts of the verified
	// functions it calls, so their obligations belong to the property's check too
	pulled := map[string]bool{}
	inKeys := map[string]bool{}
	for _, k := range keys {
		inKeys[k] = true
	}
	for qi := 0; qi < len(keys); qi++ {
		k := keys[qi]
		fi, fc := e.funcs[k], e.cs.Funcs[k]
		e.prepFunc(fi)
		for ord := range fc.LoopInv {
			if ord < 1 || ord > len(fi.loops) {
				// the loop a helper invariant was written for is gone: the function's post-conditions still decide
				// the property (they fail if the loop mattered), so this is reported but does not stop the check
				e.note("note: %s has an invariant for loop %d but the function now has %d loops (invariant ignored)", shortKey(k), ord, len(fi.loops))
			}
		}
		rep := e.VerifyFunc(fi, fc)
		reports = append(reports, rep)
		if *prop != "all" && *only == "" {
			var more []string
			for d := range e.deps[k] {
				if !inKeys[d] {
					more = append(more, d)
				}
			}
			sort.Strings(more)
			for _, d := range more {
				inKeys[d] = true
				pulled[shortKey(d)] = true
				keys = append(keys, d)
			}
		}
		if *verbose {
			fmt.Fprintf(os.Stderr, "  %-60s obligations=%d returns=%d %s\n", shortKey(k), rep.NObl, rep.ReturnPaths, rep.Err)
		}
	}
	genS := time.Since(t0).Seconds() - loadS

	lems, lemObls, lerr := e.buildLemmas()
	if lerr != nil {
		fmt.Fprintln(os.Stderr, lerr)
		os.Exit(2)
	}
	e.obls = append(e.obls, lemObls...)
	// keep the obligations of the requested property (covers/canaries follow their function)
	var obls []*Obligation
	unclaimed := 0
	// functions reached (through verified callees) from a function of a crash/wedge-freedom property
	safetyReach := map[string]bool{}
	if *prop == "all" {
		var work []string
		for _, k := range keys {
			for sp := range safetyClosureProps {
				if (hasProp(e.cs.Funcs[k], sp) || e.releasesTaggedLock(k, sp)) && !safetyReach[k] {
					safetyReach[k] = true
					work = append(work, k)
				}
			}
		}
		for len(work) > 0 {
			k := work[len(work)-1]
			work = work[:len(work)-1]
			for d := range e.deps[k] {
				if !safetyReach[d] {
					safetyReach[d] = true
					work = append(work, d)
				}
			}
		}
		for k := range safetyReach {
			safetyReach[shortKey(k)] = true
		}
	}
	primaryFn := map[string]bool{} // functions that take part in the requested property by their own tags
	if *prop != "all" {
		for _, k := range keys {
			if !pulled[shortKey(k)] && hasProp(e.cs.Funcs[k], *prop) {
				primaryFn[shortKey(k)] = true
			}
		}
	}
	for _, o := range e.obls {
		if (*prop == "all" && (len(o.Props) > 0 || o.ExpectSat || o.Kind == "lemma" || (safetyReach[o.Fn] && isSafetyKind(o.Kind)))) || contains(o.Props, *prop) || (pulled[o.Fn] && len(o.Props) > 0) ||
			((pulled[o.Fn] || primaryFn[o.Fn]) && safetyClosureProps[*prop] && isSafetyKind(o.Kind)) ||
			(*prop != "all" && strings.HasPrefix(o.Kind, "inv#") && primaryFn[o.Fn]) {
			// (loop invariants are helper clauses: a clause tagged with this property may rest on them, so they are
			// checked with every property the function takes part in)
			// (a crash/wedge-freedom property covers the run-time checks and the lock typestate of every function its
			// handlers reach, whether or not that function's contract tags them)
			obls = append(obls, o)
		} else if *prop == "all" {
			unclaimed++ // safety obligations of a function whose contract tags them with no property
		}
	}
	// lemma obligations follow the obligations that use them
	{
		usedLem := map[string]bool{}
		for _, o := range obls {
			if o.Kind == "lemma" {
				continue
			}
			used := map[string]bool{}
			for _, h := range o.Hyps {
				appFuncs(h, used)
			}
			appFuncs(o.Goal, used)
			for _, l := range lems {
				for f := range l.Funcs {
					if used[f] {
						usedLem[l.Name] = true
					}
				}
			}
		}
		have := map[*Obligation]bool{}
		for _, o := range obls {
			have[o] = true
		}
		for _, o := range lemObls {
			nm := strings.TrimPrefix(o.Key, "lemma/")
			nm = strings.TrimSuffix(strings.TrimSuffix(nm, "/base"), "/step")
			if usedLem[nm] && !have[o] {
				obls = append(obls, o)
			}
		}
	}
	runID := fmt.Sprintf("%s-%s-%d", *prop, *tier, os.Getpid())
	outDir := filepath.Join(*verif, "out", runID)
	cfg := solveCfg{outDir: outDir, timeoutS: 10, agree: 1, workers: 16, lemmas: lems}
	if *tier == "thorough" {
		cfg.timeoutS, cfg.agree = 60, 2
		cfg.siteVacuity = true
	}
	cfg.known = map[string]bool{}
	for _, kf := range readKnown(filepath.Join(*verif, "known_findings.json")) {
		if kf.Status == "known" {
			cfg.known[kf.Obligation] = true
		}
	}
	ts := time.Now()
	solveAll(obls, cfg)
	solveS := time.Since(ts).Seconds()

	if cmd == "baseline" {
		writeLocalsBaseline(filepath.Join(*verif, "locals.baseline.json"), e, keys)
		writeBaseline(filepath.Join(*verif, "obligations.baseline.json"), e, obls)
	}

	// ---- classify
	baseline := readBaseline(filepath.Join(*verif, "obligations.baseline.json"))
	known := readKnown(filepath.Join(*verif, "known_findings.json"))
	exit := 0
	var lines []string
	nObl, nDis, nCov, nCan, nVac, nKnown := 0, 0, 0, 0, 0, 0
	knownObls := map[string]bool{}
	vacSites = nil
	bySolver := map[string]int{}
	var solverMs int64
	violations := 0
	canaryOK := map[string]bool{}
	canarySeen := map[string]bool{}
	printedKnown := map[string]bool{}
	for _, o := range obls {
		if *verbose {
			fmt.Fprintf(os.Stderr, "    %-9s %-70s %6dms %s %s\n", o.Status, o.Name, o.Ms, o.Pos, o.Descr)
		}
		solverMs += o.Ms
		if o.ExpectSat {
			if o.Kind == "cover" {
				nCov++
				if o.Status == "vacuous" {
					nVac++
					lines = append(lines, fmt.Sprintf("VACUOUS %s: precondition of %s is unsatisfiable", o.Name, o.Fn))
					if exit == 0 {
						exit = 2
					}
				}
			} else {
				// one canary per return path; a return *statement* is alive if some path through it is feasible
				rk := o.Fn + "/" + strings.SplitN(strings.TrimPrefix(o.Name, o.Fn+"/canary:"), "@", 2)[0]
				canarySeen[rk] = true
				if o.Status == "covered" {
					canaryOK[rk] = true
				}
			}
			continue
		}
		nObl++
		if o.VacuousSite {
			vacSites = append(vacSites, o.Name+" "+o.Pos)
		}
		switch o.Status {
		case "proved":
			nDis++
			bySolver[o.Solver]++
			if !*keep && o.SMT != "" {
				os.Remove(o.SMT)
			}
		default:
			props := o.Props
			if *prop != "all" {
				props = []string{*prop}
			}
			if len(props) == 0 {
				props = []string{"safety"}
			}
			for _, p := range props {
				kp := p
				if pulled[o.Fn] {
					kp = "all" // obligation included through the dependency closure: a listed finding is matched by its key
				}
				if kf := findKnown(known, kp, o.Key); kf != nil {
					nKnown++
					knownObls[o.Name] = true
					if !printedKnown[p+o.Key] {
						printedKnown[p+o.Key] = true
						lines = append(lines, fmt.Sprintf("KNOWN-FINDING: property=%s %s [%s]", p, kf.WhatFails, o.Key))
					}
					continue
				}
				inBase := baseline == nil || baseline[o.Key]
				if o.Status == "unknown" && !inBase {
					rp := writeReplay(outDir, p, o)
					if replayReproduced(o) {
						// the scripted scenario of this obligation family fails on the real code
						lines = append(lines, fmt.Sprintf("VIOLATION property=%s replay=%s obligation=%s", p, rp, o.Name))
						violations++
						exit = 1
						continue
					}
					lines = append(lines, fmt.Sprintf("UNDECIDED property=%s obligation=%s (new obligation, solver undecided) %s detail=%s", p, o.Name, o.Pos, rp))
					if exit == 0 {
						exit = 2
					}
					continue
				}
				rp := writeReplay(outDir, p, o)
				suffix := ""
				if !replayReproduced(o) {
					suffix = " no-failing-input-found"
				}
				lines = append(lines, fmt.Sprintf("VIOLATION property=%s replay=%s obligation=%s%s", p, rp, o.Name, suffix))
				violations++
				exit = 1
			}
		}
	}
	nObl -= len(knownObls) // obligations listed as known findings are reported, not counted as open
	deadAck := map[string]bool{}
	for _, k := range keys {
		for _, n := range strings.FieldsFunc(e.cs.Funcs[k].Options["deadreturns"], func(r rune) bool { return r == ',' || r == ' ' }) {
			deadAck[shortKey(k)+"/ret#"+n] = true
		}
	}
	var rks []string
	for rk := range canarySeen {
		rks = append(rks, rk)
	}
	sort.Strings(rks)
	for _, rk := range rks {
		nCan++
		if !canaryOK[rk] && !deadAck[rk] {
			lines = append(lines, fmt.Sprintf("VACUOUS %s: no feasible path reaches this return statement (`ensures false` was proved on every path through it); acknowledge with `option deadreturns` if the code really is dead", rk))
			if exit == 0 {
				exit = 2
			}
		}
	}
	for _, r := range reports {
		if r.Err != "" {
			lines = append(lines, fmt.Sprintf("NOT-CHECKED %s: %s", shortKey(r.Key), r.Err))
			if exit == 0 {
				exit = 2
			}
		}
	}
	for _, s := range stale {
		lines = append(lines, s)
		if exit == 0 {
			exit = 2
		}
	}
	for _, n := range e.notes {
		if strings.HasPrefix(n, "stale-invariant") || strings.HasPrefix(n, "stale-clause") {
			lines = append(lines, "NOTE "+n)
		}
		if strings.HasPrefix(n, "stale-contract") {
			lines = append(lines, n)
			if exit == 0 {
				exit = 2
			}
		}
	}
	if nObl == 0 && exit == 0 {
		lines = append(lines, "VACUOUS: zero obligations generated")
		exit = 2
	}
	var bounded []*boundedResult
	if boundedReopenProps[*prop] && *only == "" {
		if br := runBoundedReopen(*repo, *verif, *tier); br != nil {
			bounded = append(bounded, br)
			switch {
			case br.Failures > 0:
				os.MkdirAll(outDir, 0o755)
				rp := filepath.Join(outDir, "bounded_reopen.replay.json")
				data, _ := json.MarshalIndent(map[string]interface{}{"property": *prop, "check": br.Name, "bound": br.Bound, "sequences": br.Sequences, "failures": br.Failures,
					"failing_input": br.First, "output": lastLines(br.Output, 40), "how_to_rerun": "ZZ_BOUND/ZZ_EXTRA + go test -tags debug -overlay (bounded/reopen_harness.go.txt as replica/zz_bounded_test.go) -run TestZZBoundedReopen ./replica"}, "", " ")
				os.WriteFile(rp, data, 0o644)
				lines = append(lines, fmt.Sprintf("VIOLATION property=%s replay=%s bounded-check=reopen-equivalence failing-sequence=%s", *prop, rp, br.First))
				violations++
				exit = 1
			case br.Failures < 0:
				lines = append(lines, "NOT-CHECKED bounded reopen harness: "+br.First)
				if exit == 0 {
					exit = 2
				}
			default:
				lines = append(lines, fmt.Sprintf("BOUNDED %s: %d sequences (%s), 0 failures [not a proof; not counted in discharged]", br.Name, br.Sequences, br.Bound))
			}
		}
	}
	for _, l := range lines {
		fmt.Println(l)
	}
	wall := time.Since(t0).Seconds()
	fmt.Printf("jv: property=%s tier=%s functions=%d obligations=%d discharged=%d known=%d covers=%d canaries=%d load=%.1fs gen=%.1fs solve=%.1fs wall=%.1fs exit=%d\n",
		*prop, *tier, len(keys), nObl, nDis, nKnown, nCov, nCan, loadS, genS, solveS, wall, exit)

	if !*noEvidence && *prop != "all" {
		writeEvidence(*verif, *prop, *tier, e, keys, reports, obls, nObl, nDis, nCov, nCan, nKnown, bySolver, float64(solverMs)/1000, wall, violations, lines, bounded)
	}
	if exit == 0 && !*keep {
		os.RemoveAll(outDir)
	}
	pruneOut(filepath.Join(*verif, "out"), 12)
	os.Exit(exit)
}

var safetyClosureProps = map[string]bool{"C14": true}

func isSafetyKind(kind string) bool {
	base := strings.SplitN(kind, ":", 2)[0]
	base = strings.SplitN(base, "#", 2)[0]
	return safetyKinds[base]
}

// releasesTaggedLock: the function acquires (and so releases) its receiver's lock, and a lock invariant of that lock
// is tagged with property p: the invariant must hold at each of its unlocks, so the function takes part in p even if
// its own contract does not say so.
func (e *Engine) releasesTaggedLock(key, p string) bool {
	fi := e.funcs[key]
	if fi == nil {
		return false
	}
	fld := e.acquiresRecvLock(fi)
	if fld == "" {
		return false
	}
	sig := fi.Obj.Type().(*types.Signature)
	n := namedOf(sig.Recv().Type())
	if n == nil {
		return false
	}
	for _, li := range e.cs.Locks {
		if strings.TrimPrefix(li.RecvType, "*") != n.Obj().Name() || li.PkgPath != fi.Pkg.PkgPath || li.Mutex != fld {
			continue
		}
		for _, c := range li.Inv {
			if contains(c.Props, p) {
				return true
			}
		}
	}
	return false
}

func hasProp(fc *FuncContract, p string) bool {
	if contains(fc.Props, p) || contains(strings.Fields(fc.Options["safetyprops"]), p) {
		return true
	}
	all := append(append([]*Clause{}, fc.Requires...), fc.Ensures...)
	for _, cs := range fc.LoopInv {
		all = append(all, cs...)
	}
	for _, cs := range fc.CallPre {
		all = append(all, cs...)
	}
	for _, c := range all {
		if contains(c.Props, p) {
			return true
		}
	}
	return false
}

func contains(xs []string, x string) bool {
	for _, y := range xs {
		if y == x {
			return true
		}
	}
	return false
}

func readBaseline(path string) map[string]bool {
	data, err := os.ReadFile(path)
	if err != nil {
		return nil
	}
	var keys []string
	if json.Unmarshal(data, &keys) != nil {
		return nil
	}
	m := map[string]bool{}
	for _, k := range keys {
		m[k] = true
	}
	return m
}

// localNames: the local variables (and named results) of a function in declaration order.
func localNames(fi *FuncInfo) []string {
	if fi == nil || fi.Decl == nil || fi.Pkg == nil {
		return nil
	}
	type nv struct {
		pos  token.Pos
		name string
	}
	var all []nv
	for id, obj := range fi.Pkg.TypesInfo.Defs {
		v, ok := obj.(*types.Var)
		if !ok || v.IsField() || id.Name == "_" {
			continue
		}
		if fi.Decl.Pos() <= id.Pos() && id.Pos() < fi.Decl.End() {
			all = append(all, nv{id.Pos(), id.Name})
		}
	}
	sort.Slice(all, func(i, j int) bool { return all[i].pos < all[j].pos })
	var out []string
	for _, x := range all {
		out = append(out, x.name)
	}
	return out
}

// writeLocalsBaseline records, per function under contract, its locals in declaration order, so that a
// later pure renaming of a local (same number of declarations, same order) does not make the contract stale.
func writeLocalsBaseline(path string, e *Engine, keys []string) {
	old := map[string][]string{}
	if data, err := os.ReadFile(path); err == nil {
		json.Unmarshal(data, &old)
	}
	for _, k := range keys {
		old[shortKey(k)] = localNames(e.funcs[k])
	}
	data, _ := json.MarshalIndent(old, "", " ")
	os.WriteFile(path, append(data, '\n'), 0o644)
}

// loadRenames compares the recorded declaration lists with the current ones and derives old->new name maps.
func loadRenames(path string, e *Engine) {
	base := map[string][]string{}
	data, err := os.ReadFile(path)
	if err != nil || json.Unmarshal(data, &base) != nil {
		return
	}
	for k, fi := range e.funcs {
		was, ok := base[shortKey(k)]
		if !ok {
			continue
		}
		now := localNames(fi)
		if len(was) != len(now) {
			continue
		}
		m := map[string]string{}
		consistent := true
		for i := range was {
			if was[i] == now[i] {
				continue
			}
			if prev, dup := m[was[i]]; dup && prev != now[i] {
				consistent = false
			}
			m[was[i]] = now[i]
		}
		if consistent && len(m) > 0 {
			fi.renames = m
			e.note("locals renamed in %s since the baseline (contract names translated): %v", shortKey(k), m)
		}
	}
}

func writeBaseline(path string, e *Engine, obls []*Obligation) {
	old := readBaseline(path)
	set := map[string]bool{}
	bad := map[string]bool{}
	touchedFn := map[string]bool{}
	for _, o := range obls {
		touchedFn[o.Fn] = true
		if o.ExpectSat {
			continue
		}
		if o.Status == "proved" {
			set[o.Key] = true
		} else {
			bad[o.Key] = true
		}
	}
	for k := range bad {
		delete(set, k)
	}
	// keep baseline entries of functions not re-verified in this run
	for k := range old {
		fn := k[:strings.Index(k, "/")]
		if i := strings.LastIndex(k, "/"); i >= 0 {
			fn = k[:i]
		}
		if !touchedFn[fn] {
			set[k] = true
		}
	}
	var keys []string
	for k := range set {
		keys = append(keys, k)
	}
	sort.Strings(keys)
	data, _ := json.MarshalIndent(keys, "", " ")
	os.WriteFile(path, append(data, '\n'), 0o644)
}

func readKnown(path string) []knownFinding {
	data, err := os.ReadFile(path)
	if err != nil {
		return nil
	}
	var k []knownFinding
	if err := json.Unmarshal(data, &k); err != nil {
		fmt.Fprintln(os.Stderr, "known_findings.json:", err)
		os.Exit(2)
	}
	return k
}

func findKnown(known []knownFinding, prop, key string) *knownFinding {
	for i := range known {
		k := &known[i]
		if k.Status == "known" && k.Obligation == key && (containsProp(k.Property, prop) || prop == "safety" || prop == "all") {
			return k
		}
	}
	return nil
}

func replayReproduced(o *Obligation) bool { return o.Output != "" && strings.Contains(o.Output, "REPLAY-REPRODUCED") }

func writeReplay(outDir, prop string, o *Obligation) string {
	os.MkdirAll(outDir, 0o755)
	path := filepath.Join(outDir, o.fileName()+".replay.json")
	rec := map[string]interface{}{
		"property":    prop,
		"obligation":  o.Name,
		"key":         o.Key,
		"function":    o.Fn,
		"kind":        o.Kind,
		"position":    o.Pos,
		"clause":      o.Clause,
		"description": o.Descr,
		"status":      o.Status,
		"solver":      o.Solver,
		"solver_output": o.Output,
		"model":       o.Model,
		"smt_file":    o.SMT,
	}
	runReplay(rec, o)
	data, _ := json.MarshalIndent(rec, "", " ")
	os.WriteFile(path, data, 0o644)
	return path
}

func pruneOut(dir string, keep int) {
	ents, err := os.ReadDir(dir)
	if err != nil || len(ents) <= keep {
		return
	}
	type ent struct {
		name string
		mod  time.Time
	}
	var es []ent
	for _, d := range ents {
		if info, err := d.Info(); err == nil {
			es = append(es, ent{d.Name(), info.ModTime()})
		}
	}
	sort.Slice(es, func(i, j int) bool { return es[i].mod.After(es[j].mod) })
	for _, x := range es[keep:] {
		os.RemoveAll(filepath.Join(dir, x.name))
	}
}

// vacSites: proved obligations whose hypotheses are unsatisfiable (thorough tier probe): dead code or
// contradictory assumptions at that site; listed in the evidence.
var vacSites []string

func writeEvidence(verif, prop, tier string, e *Engine, keys []string, reports []funcReport, obls []*Obligation, nObl, nDis, nCov, nCan, nKnown int, bySolver map[string]int, solverS, wall float64, violations int, lines []string, bounded []*boundedResult) {
	var fns []string
	for _, k := range keys {
		fns = append(fns, shortKey(k))
	}
	var samples []map[string]interface{}
	for _, o := range obls {
		if o.ExpectSat || len(samples) >= 25 {
			continue
		}
		if o.Solver == "simplifier" && len(samples) > 5 {
			continue
		}
		samples = append(samples, map[string]interface{}{"obligation": o.Name, "clause": o.Clause, "status": o.Status, "solver": o.Solver, "ms": o.Ms, "pos": o.Pos})
	}
	// the slowest obligations of this run (slow queries are the unstable ones: candidates for an intermediate lemma)
	var slow []*Obligation
	for _, o := range obls {
		if !o.ExpectSat && o.Status == "proved" {
			slow = append(slow, o)
		}
	}
	sort.Slice(slow, func(i, j int) bool { return slow[i].Ms > slow[j].Ms })
	var slowest []map[string]interface{}
	for i := 0; i < len(slow) && i < 8; i++ {
		slowest = append(slowest, map[string]interface{}{"obligation": slow[i].Name, "ms": slow[i].Ms, "solver": slow[i].Solver})
	}
	var trusted []string
	trusted = append(trusted, "VC generator /verif/engine (Go subset semantics, DESIGN.md 2.3) — guarded by covers, canaries and the selftest corpus")
	trusted = append(trusted, "SMT solvers z3 5.1.0, z3 4.8.12, cvc5 1.0.3")
	for _, s := range e.cs.Scan {
		trusted = append(trusted, "contract-file assumption: "+s)
	}
	var ifs []string
	for k, fc := range e.cs.Ifaces {
		if fc.used {
			ifs = append(ifs, shortKey(k))
		}
	}
	for k, fc := range e.cs.Funcs {
		if fc.Trusted && fc.used {
			ifs = append(ifs, shortKey(k))
		}
	}
	sort.Strings(ifs)
	for _, k := range ifs {
		trusted = append(trusted, "assumed contract (interface/external): "+k)
	}
	var assumptions []string
	var ext []string
	for k := range e.assumed {
		ext = append(ext, shortKey(k))
	}
	sort.Strings(ext)
	if len(ext) > 0 {
		assumptions = append(assumptions, "external/uncontracted callees treated as heap-neutral with unconstrained results: "+strings.Join(ext, ", "))
	}
	var dr []string
	for k := range e.dropped {
		dr = append(dr, k)
	}
	sort.Strings(dr)
	if len(dr) > 0 {
		assumptions = append(assumptions, "dropped by extraction (no effect on verified state): "+strings.Join(dr, ", "))
	}
	assumptions = append(assumptions, e.notes...)
	assumptions = append(assumptions,
		"integers are mathematical Ints constrained to their Go type's range at every read; unsigned and narrowing conversions are exact (mod 2^n); signed 64-bit overflow is an obligation only in functions marked `option overflow`",
		"pointer dereferences are assumed non-nil except in functions marked `option nilcheck` (method receivers are verified for non-nil receivers)",
		"slices have value semantics (backing-array aliasing not modelled); capacity is not modelled (s[a:b] requires b <= len)",
		"fork/join goroutine loops are sequentialised; spawned named goroutines are verified as separate lock-acquiring operations",
		"lock invariants: assumed at Lock, proved at every Unlock; protected fields are only written under the lock inside functions under contract (guarded obligations)")
	var meta map[string]propMeta
	if data, err := os.ReadFile(filepath.Join(verif, "spec", "properties_meta.json")); err == nil {
		json.Unmarshal(data, &meta)
	}
	if m, ok := meta[prop]; ok {
		for _, a := range m.Assumptions {
			assumptions = append(assumptions, a)
		}
		for _, a := range m.NotDecided {
			assumptions = append(assumptions, "NOT DECIDED by this check: "+a)
		}
	}
	var notChecked []string
	for _, r := range reports {
		if r.Err != "" {
			notChecked = append(notChecked, shortKey(r.Key)+": "+r.Err)
		}
	}
	ev := map[string]interface{}{
		"property_id": prop,
		"tier":        tier,
		"seed":        0,
		"level":       "proof",
		"coverage": map[string]interface{}{
			"obligations":              nObl,
			"discharged":               nDis,
			"checker_cmd":              fmt.Sprintf("/verif/bin/jv check --property %s --tier %s", prop, tier),
			"trusted_base":             trusted,
			"functions_under_contract": fns,
			"covers":                   nCov,
			"canaries":                 nCan,
			"known_findings_reported":  nKnown,
			"discharged_by":            bySolver,
			"solver_time_s":            solverS,
			"samples":                  samples,
			"slowest":                  slowest,
			"bounded":                  bounded,
			"not_checked":              notChecked,
			"report_lines":             lines,
			"vacuous_sites":            vacSites,
		},
		"assumptions": assumptions,
		"wall_s":      wall,
		"violations":  violations,
	}
	os.MkdirAll(filepath.Join(verif, "evidence"), 0o755)
	data, _ := json.MarshalIndent(ev, "", " ")
	os.WriteFile(filepath.Join(verif, "evidence", prop+".json"), append(data, '\n'), 0o644)
}

func containsProp(list, p string) bool {
	for _, x := range strings.Split(list, ",") {
		if strings.TrimSpace(x) == p {
			return true
		}
	}
	return false
}
