package main

// Replay of counterexamples against the real code.
//
// For a refuted obligation the engine asks the solver for the values of the obligation's
// observables (parameters, lengths of slice parameters, scalar fields of the receiver at entry
// and at the first lock acquisition), renders a Go test from the template of the obligation's
// family, injects it with `go test -overlay` (nothing is written into /repo) and runs it.

import (
	"encoding/json"
	"fmt"
	"go/types"
	"os"
	"os/exec"
	"path/filepath"
	"regexp"
	"sort"
	"strings"
	"time"
)

type NamedTerm struct {
	Name string
	T    *Term
}

// observablesOf lists the source-level quantities whose model values a replay needs.
func (e *Engine) observablesOf(fr *Frame, st *State) []NamedTerm {
	top := fr.top
	var out []NamedTerm
	add := func(name string, t *Term) {
		if t == nil {
			return
		}
		switch {
		case t.S == IntSort || t.S == BoolSort || t.S == StrSort:
			out = append(out, NamedTerm{name, t})
		case t.S.IsSlice():
			out = append(out, NamedTerm{"len(" + name + ")", Acc(t, "len")})
			if es := t.S.Fields[0].S.V; es.Kind == SData && !es.IsSlice() && !es.IsMap() {
				for i := 0; i < 4; i++ {
					el := Select(Acc(t, "arr"), IntLit(int64(i)))
					for _, f := range es.Fields {
						if f.S == IntSort || f.S == BoolSort || f.S == StrSort {
							out = append(out, NamedTerm{fmt.Sprintf("%s[%d].%s", name, i, f.Name), Acc(el, f.Name)})
						}
					}
				}
			}
		case t.S.IsMap():
			out = append(out, NamedTerm{"len(" + name + ")", Acc(t, "card")})
		}
	}
	sig := top.fn.Obj.Type().(*types.Signature)
	for i := 0; i < sig.Params().Len(); i++ {
		p := sig.Params().At(i)
		if v, ok := top.entry.vars[p]; ok {
			add(p.Name(), v)
		}
	}
	if r := sig.Recv(); r != nil {
		if rv, ok := top.entry.vars[r]; ok {
			if n := namedOf(r.Type()); n != nil {
				if stt, ok := n.Underlying().(*types.Struct); ok {
					owner := typeName(n)
					states := map[string]*State{"": top.entry}
					if s1 := st.snaps["lock1"]; s1 != nil {
						states["@lock1"] = s1
					}
					for tag, s := range states {
						for i := 0; i < stt.NumFields(); i++ {
							f := stt.Field(i)
							if isSyncType(f.Type()) || isStructVal(f.Type()) {
								continue
							}
							key := e.fieldKey(owner, f)
							h, ok := s.heap[key]
							if !ok {
								if tag != "" {
									continue
								}
								h = initHeapSym(s, key, e.fieldHeapSort(f))
							}
							add(r.Name()+"."+f.Name()+tag, Select(h, rv))
						}
					}
				}
			}
		}
	}
	// struct-valued parameters: their scalar fields
	for i := 0; i < sig.Params().Len(); i++ {
		p := sig.Params().At(i)
		if v, ok := top.entry.vars[p]; ok && v.S.Kind == SData && !v.S.IsSlice() && !v.S.IsMap() {
			for _, f := range v.S.Fields {
				add(p.Name()+"."+f.Name, Acc(v, f.Name))
			}
		}
	}
	// current values of string/int locals of the verified function
	type probe struct {
		name string
		t    *Term
	}
	var keys []probe
	for v, t := range st.vars {
		if v.Pkg() == nil || t == nil {
			continue
		}
		if t.S.IsSlice() && v.Pos() >= top.fn.Decl.Pos() && v.Pos() <= top.fn.Decl.End() {
			out = append(out, NamedTerm{"len(local:" + v.Name() + ")", Acc(t, "len")})
		}
		if t.S == StrSort || t.S == IntSort || t.S == BoolSort {
			if v.Pos() >= top.fn.Decl.Pos() && v.Pos() <= top.fn.Decl.End() {
				nm := "local:" + v.Name()
				add(nm, t)
				if t.S == StrSort {
					keys = append(keys, probe{nm, t})
				}
			}
		}
	}
	for _, nt := range out {
		if nt.T.S == StrSort && !strings.HasPrefix(nt.Name, "local:") && !strings.Contains(nt.Name, "[") && probeKeyRe.MatchString(nt.Name) {
			keys = append(keys, probe{nt.Name, nt.T})
		}
	}
	// map probes: for string-keyed map fields of the receiver (current state), membership and scalar fields at those keys
	if r := sig.Recv(); r != nil {
		if rv, ok := top.entry.vars[r]; ok {
			if n := namedOf(r.Type()); n != nil {
				if stt, ok := n.Underlying().(*types.Struct); ok {
					owner := typeName(n)
					for i := 0; i < stt.NumFields(); i++ {
						f := stt.Field(i)
						mt, isMap := f.Type().Underlying().(*types.Map)
						if !isMap || e.sortOf(mt.Key()) != StrSort {
							continue
						}
						key := e.fieldKey(owner, f)
						h, ok := st.heap[key]
						if !ok {
							continue
						}
						m := Select(h, rv)
						add(r.Name()+"."+f.Name()+"@here", m)
						vs := m.S.Fields[0].S.V
						for _, k := range keys {
							pre := fmt.Sprintf("%s.%s@here[%s]", r.Name(), f.Name(), k.name)
							out = append(out, NamedTerm{pre + ".in", Select(Acc(m, "dom"), k.t)})
							el := Select(Acc(m, "val"), k.t)
							if vs.Kind == SData {
								for _, ff := range vs.Fields {
									if ff.S == IntSort || ff.S == BoolSort || ff.S == StrSort {
										out = append(out, NamedTerm{pre + "." + ff.Name, Acc(el, ff.Name)})
									}
								}
							}
						}
					}
				}
			}
		}
	}
	sort.Slice(out, func(i, j int) bool { return out[i].Name < out[j].Name })
	return out
}

// string-valued observables used as map probe keys (addresses, names)
var probeKeyRe = regexp.MustCompile(`(?i)address|replica$|replica@|name$|head|parent`)

var valRe = regexp.MustCompile(`\(\s*(obs!\d+)\s+((?:\(-\s*\d+\))|-?\d+|true|false|Str!val!\d+)\s*\)`)

// modelValues re-solves a refuted obligation asking for the observables; slice lengths are
// first bounded (small inputs replay better), then unbounded.
func modelValues(o *Obligation, hyps []*Term) map[string]string {
	if len(o.Obs) == 0 {
		return nil
	}
	obs := append([]NamedTerm(nil), o.Obs...)
	for lit, sym := range strLitRegistry {
		obs = append(obs, NamedTerm{"lit:" + lit, sym})
	}
	o.Obs = obs
	for pass, bound := range []int64{4096 * 16, 4096 * 16, 1 << 40, -1} {
		var extra []*Term
		var b strings.Builder
		for i, nt := range o.Obs {
			nm := fmt.Sprintf("obs!%d", i)
			extra = append(extra, Eq(Var(nm, nt.T.S), nt.T))
			if bound > 0 && strings.HasPrefix(nt.Name, "len(") {
				b := bound
				if pass == 0 {
					b = 8
				}
				extra = append(extra, Le(nt.T, IntLit(b)))
			}
			if pass == 0 && nt.T.S == IntSort && !strings.HasPrefix(nt.Name, "len(") {
				// first try small scalars everywhere (smallest counterexamples replay best)
				extra = append(extra, And(Le(IntLit(-8), nt.T), Le(nt.T, IntLit(64))))
			}
			b.WriteString(nm + " ")
		}
		src := EmitSMT(append(append([]*Term(nil), hyps...), extra...), o.Goal, true)
		src = strings.Replace(src, "(get-model)\n", "(get-value ("+b.String()+"))\n", 1)
		f := strings.TrimSuffix(o.SMT, ".smt2") + ".obs.smt2"
		os.WriteFile(f, []byte(src), 0o644)
		v, out, _ := runSolver(solvers[0], f, 10)
		if v != "sat" {
			continue
		}
		vals := map[string]string{}
		for _, m := range valRe.FindAllStringSubmatch(out, -1) {
			var idx int
			fmt.Sscanf(m[1], "obs!%d", &idx)
			val := strings.NewReplacer("(", "", ")", "", " ", "").Replace(m[2])
			vals[o.Obs[idx].Name] = val
		}
		// abstract string values -> the literal they equal (if any)
		rev := map[string]string{}
		for k, v := range vals {
			if strings.HasPrefix(k, "lit:") {
				rev[v] = strings.TrimPrefix(k, "lit:")
			}
		}
		for k, v := range vals {
			if strings.HasPrefix(v, "Str!val!") && !strings.HasPrefix(k, "lit:") {
				if l, ok := rev[v]; ok {
					vals[k] = "str:" + l
				}
			}
		}
		for k := range vals {
			if strings.HasPrefix(k, "lit:") {
				delete(vals, k)
			}
		}
		return vals
	}
	return nil
}

type replayTemplate struct {
	match func(o *Obligation) bool
	pkg   string // repo-relative package dir
	gen   func(o *Obligation, vals map[string]string) (src string, ok bool)
	tags  string
	// scripted: the scenario is fixed by the obligation (which exit, which handler), not by model values;
	// it is replayed even when the solver returned unknown instead of a model
	scripted bool
}

var replayTemplates []replayTemplate

func runReplay(rec map[string]interface{}, o *Obligation) {
	rec["model_values"] = o.Vals
	for _, t := range replayTemplates {
		if !t.match(o) {
			continue
		}
		if o.Vals == nil && !t.scripted {
			rec["replay"] = "no concrete values: the solver gave no model for this obligation"
			return
		}
		if o.Vals == nil {
			o.Vals = map[string]string{}
		}
		src, ok := t.gen(o, o.Vals)
		if !ok {
			rec["replay"] = "model values outside what the replay template can build (e.g. an allocation that large)"
			return
		}
		out, verdict := execReplay(replayRepo, t.pkg, t.tags, src)
		rec["replay_test"] = src
		rec["replay_output"] = out
		rec["replay"] = verdict
		if verdict == "REPLAY-REPRODUCED" {
			o.Output += "\nREPLAY-REPRODUCED"
		}
		return
	}
	rec["replay"] = "no replay template for this obligation family; the solver output above is the evidence"
}

var replayRepo = "/repo"

// strLitRegistry: string literal -> its SMT symbol (filled by the engine)
var strLitRegistry = map[string]*Term{}

// execReplay injects src as zz_replay_test.go into pkg via -overlay and runs it.
func execReplay(repo, pkg, tags, src string) (string, string) {
	dir, err := os.MkdirTemp("/var/tmp", "jv-replay-")
	if err != nil {
		return err.Error(), "REPLAY-ERROR"
	}
	defer os.RemoveAll(dir)
	tf := filepath.Join(dir, "zz_replay_test.go")
	os.WriteFile(tf, []byte(src), 0o644)
	ov := map[string]map[string]string{"Replace": {filepath.Join(repo, pkg, "zz_replay_test.go"): tf}}
	data, _ := json.Marshal(ov)
	of := filepath.Join(dir, "ov.json")
	os.WriteFile(of, data, 0o644)
	args := []string{"test", "-overlay", of, "-vet=off", "-count=1", "-timeout", "60s", "-run", "TestZZReplay", "-v"}
	if tags != "" {
		args = append(args, "-tags", tags)
	}
	args = append(args, "./"+pkg)
	cmd := exec.Command("go", args...)
	cmd.Dir = repo
	cmd.Env = append(os.Environ(), "GOFLAGS=-mod=mod", "GOPROXY=off", "GOSUMDB=off", "GOTOOLCHAIN=local")
	done := make(chan struct{})
	var out []byte
	go func() { out, _ = cmd.CombinedOutput(); close(done) }()
	select {
	case <-done:
	case <-time.After(120 * time.Second):
		cmd.Process.Kill()
		return "timeout", "REPLAY-ERROR"
	}
	s := string(out)
	if len(s) > 6000 {
		s = s[:6000]
	}
	switch {
	case strings.Contains(s, "fatal error: sync:") || strings.Contains(s, "fatal error: all goroutines are asleep"):
		return s, "REPLAY-REPRODUCED"
	case strings.Contains(s, "REPLAY-REPRODUCED"):
		return s, "REPLAY-REPRODUCED"
	case strings.Contains(s, "REPLAY-NOT-REPRODUCED"):
		return s, "REPLAY-NOT-REPRODUCED"
	}
	return s, "REPLAY-ERROR"
}
