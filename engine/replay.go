package main

// Replay of counterexamples against the real code (templates are added per function family).

func runReplay(rec map[string]interface{}, o *Obligation) {
	rec["replay"] = "no replay template for this obligation family; the solver output above is the evidence"
}
