package main

import "strings"

func init() {
	// sync agent: a launch that is over must not leave the process record at -2 ("still running")
	replayTemplates = append(replayTemplates, replayTemplate{
		match: func(o *Obligation) bool {
			return o.Fn == "sync/agent.Server.launch" && strings.HasPrefix(o.Kind, "post#finished")
		},
		scripted: true,
		pkg:      "sync/agent",
		gen: func(o *Obligation, vals map[string]string) (string, bool) {
			return `package agent

import (
	"os"
	"syscall"
	"testing"
)

func TestZZReplay(t *testing.T) {
	s := NewServer(9700, 9800)
	// (1) a process type the agent does not know
	p := &Process{ProcessType: "zz-unknown", ExitCode: -2}
	err := s.launch(p)
	t.Logf("unknown type: launch error %v, exit code recorded %d", err, p.ExitCode)
	if err != nil && p.ExitCode == -2 {
		t.Fatalf("REPLAY-REPRODUCED: the launch failed (%v) but the process record still says -2 (running): a poller never sees it end", err)
	}
	// (2) a helper that cannot be started: no file descriptor left for exec
	ents, rerr := os.ReadDir("/proc/self/fd")
	var old syscall.Rlimit
	if rerr == nil && syscall.Getrlimit(syscall.RLIMIT_NOFILE, &old) == nil {
		lim := old
		lim.Cur = uint64(len(ents)) - 1
		if syscall.Setrlimit(syscall.RLIMIT_NOFILE, &lim) == nil {
			q := &Process{ProcessType: "fold", SrcFile: "/nonexistent/a", DestFile: "/nonexistent/b", ExitCode: -2}
			lerr := s.launch(q)
			syscall.Setrlimit(syscall.RLIMIT_NOFILE, &old)
			t.Logf("start failure: launch error %v, exit code recorded %d", lerr, q.ExitCode)
			if lerr != nil && q.ExitCode == -2 {
				t.Fatalf("REPLAY-REPRODUCED: the helper could not be started (%v) but the process record still says -2 (running): a poller never sees it end", lerr)
			}
		}
	}
	t.Log("REPLAY-NOT-REPRODUCED")
}
`, true
		},
	})
}
