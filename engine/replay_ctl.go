package main

import (
	"fmt"
	"strconv"
	"strings"
)

// R-ctl: replays on a real Controller with scripted mock backends.

const ctlMock = `package controller

import (
	"fmt"
	"math/big"
	"testing"

	"github.com/openebs/jiva/types"
)

type zzBackend struct {
	name    string
	calls   int
	failW   bool
	failR   bool
	failSnap bool
	monitor types.MonitorChannel
}

func (b *zzBackend) WriteAt(p []byte, off int64) (int, error) {
	b.calls++
	if b.failW {
		return 0, fmt.Errorf("injected write failure")
	}
	return len(p), nil
}
func (b *zzBackend) ReadAt(p []byte, off int64) (int, error) {
	b.calls++
	if b.failR {
		return 0, fmt.Errorf("injected read failure")
	}
	return len(p), nil
}
func (b *zzBackend) Close() error                  { return nil }
func (b *zzBackend) Sync() (int, error)            { b.calls++; if b.failW { return -1, fmt.Errorf("injected") }; return 0, nil }
func (b *zzBackend) Unmap(int64, int64) (int, error) { b.calls++; if b.failW { return -1, fmt.Errorf("injected") }; return 0, nil }
func (b *zzBackend) Snapshot(name string, userCreated bool, created string) error {
	if b.failSnap {
		return fmt.Errorf("injected snapshot failure")
	}
	return nil
}
func (b *zzBackend) GetReplicaChain() ([]string, error)      { return []string{"head", "snap"}, nil }
func (b *zzBackend) SetCheckpoint(string) error              { return nil }
func (b *zzBackend) Resize(string, string) error             { return nil }
func (b *zzBackend) Size() (int64, error)                    { return 0, nil }
func (b *zzBackend) SectorSize() (int64, error)              { return 4096, nil }
func (b *zzBackend) RemainSnapshots() (int, error)           { return 100, nil }
func (b *zzBackend) GetRevisionCounter() (int64, error)      { return 1, nil }
func (b *zzBackend) GetCloneStatus() (string, error)         { return "NA", nil }
func (b *zzBackend) GetVolUsage() (types.VolUsage, error)    { return types.VolUsage{}, nil }
func (b *zzBackend) SetReplicaMode(types.Mode) error         { return nil }
func (b *zzBackend) SetRevisionCounter(int64) error          { return nil }
func (b *zzBackend) SetRebuilding(bool) error                { return nil }
func (b *zzBackend) GetMonitorChannel() types.MonitorChannel { return b.monitor }
func (b *zzBackend) StopMonitoring()                         {}

type zzFrontend struct{}

func (zzFrontend) Startup(string, string, string, int64, int64, types.IOs) error { return nil }
func (zzFrontend) Shutdown() error                                                { return nil }
func (zzFrontend) State() types.State                                             { return types.StateDown }
func (zzFrontend) Stats() types.Stats                                             { return types.Stats{} }
func (zzFrontend) Resize(uint64) error                                            { return nil }

// zzController builds a controller with the given replica modes (all data replicas).
func zzController(rf int, modes []types.Mode, size int64) (*Controller, []*zzBackend) {
	c := NewController(WithRF(rf), WithFrontend(zzFrontend{}, ""))
	var bs []*zzBackend
	for i, m := range modes {
		addr := fmt.Sprintf("tcp://10.0.0.%d:9502", i+1)
		b := &zzBackend{name: addr}
		bs = append(bs, b)
		c.replicas = append(c.replicas, types.Replica{Address: addr, Mode: types.WO})
		c.backend.AddBackend(addr, b)
		c.setReplicaModeNoLock(addr, m)
	}
	c.size = size
	c.UpdateVolStatus()
	return c, bs
}

var _ = big.NewInt
var _ = testing.Short
`

func intVal(vals map[string]string, k string) (int64, bool) {
	s, ok := vals[k]
	if !ok {
		return 0, false
	}
	n, err := strconv.ParseInt(s, 10, 64)
	return n, err == nil
}

func init() {
	// Controller.WriteAt / ReadAt: range check, overflow, read-only gate
	replayTemplates = append(replayTemplates, replayTemplate{
		match: func(o *Obligation) bool {
			if o.Fn != "controller.Controller.WriteAt" && o.Fn != "controller.Controller.ReadAt" {
				return false
			}
			return o.Kind == "overflow" || strings.HasPrefix(o.Kind, "post#range") || strings.HasPrefix(o.Kind, "post#gate")
		},
		pkg: "controller",
		gen: func(o *Obligation, vals map[string]string) (string, bool) {
			off, ok1 := intVal(vals, "off")
			ln, ok2 := intVal(vals, "len(b)")
			size, ok3 := intVal(vals, "c.size@lock1")
			if !ok1 || !ok2 || !ok3 || ln < 0 || ln > 1<<26 {
				return "", false
			}
			ro := vals["c.ReadOnly@lock1"] == "true"
			op := "WriteAt"
			if o.Fn == "controller.Controller.ReadAt" {
				op = "ReadAt"
			}
			modes := "[]types.Mode{types.RW}"
			if ro {
				modes = "[]types.Mode{types.WO}"
			}
			body := fmt.Sprintf(`
func TestZZReplay(t *testing.T) {
	off, ln, size := int64(%d), %d, int64(%d)
	c, bs := zzController(1, %s, size)
	n, err := c.%s(make([]byte, ln), off)
	calls := 0
	for _, b := range bs {
		calls += b.calls
	}
	end := new(big.Int).Add(big.NewInt(off), big.NewInt(int64(ln)))
	outOfRange := off < 0 || end.Cmp(big.NewInt(size)) > 0
	t.Logf("op=%s off=%%d len=%%d size=%%d readOnly=%%v -> n=%%d err=%%v backendCalls=%%d outOfRange=%%v", off, ln, size, c.ReadOnly, n, err, calls, outOfRange)
	if (outOfRange || (c.ReadOnly && "%s" == "WriteAt")) && (err == nil || calls > 0) {
		t.Fatalf("REPLAY-REPRODUCED: I/O outside [0,size) or on a read-only volume was not refused without touching a replica")
	}
	t.Log("REPLAY-NOT-REPRODUCED")
}
`, off, ln, size, modes, op, op, op)
			return ctlMock + body, true
		},
	})
}

// modelReplicas renders the replica list the model chose at the first lock acquisition.
func modelReplicas(vals map[string]string, field string) (goModes string, addrOf map[string]string, n int, ok bool) {
	ln, has := intVal(vals, "len("+field+")")
	if !has || ln < 0 || ln > 4 {
		return "", nil, 0, false
	}
	addrOf = map[string]string{}
	var ms []string
	for i := 0; i < int(ln); i++ {
		m := vals[fmt.Sprintf("%s[%d].Mode", field, i)]
		mode := "WO"
		if strings.HasPrefix(m, "str:") {
			mode = strings.TrimPrefix(m, "str:")
		}
		if mode != "RW" && mode != "WO" && mode != "ERR" {
			return "", nil, 0, false
		}
		ms = append(ms, "types."+mode)
		addrOf[vals[fmt.Sprintf("%s[%d].Address", field, i)]] = fmt.Sprintf("tcp://10.0.0.%d:9502", i+1)
	}
	return "[]types.Mode{" + strings.Join(ms, ", ") + "}", addrOf, int(ln), true
}

func init() {
	// lock invariant `status` (ReadOnly / RWReplicaCount agree with the replica list) at an Unlock of a controller operation
	replayTemplates = append(replayTemplates, replayTemplate{
		match: func(o *Obligation) bool {
			return o.Fn == "controller.Controller.SetReplicaMode" && strings.HasPrefix(o.Kind, "lockinv.status")
		},
		scripted: true,
		pkg: "controller",
		gen: func(o *Obligation, vals map[string]string) (string, bool) {
			modes, addrOf, n, ok := modelReplicas(vals, "c.replicas@lock1")
			rf, ok2 := intVal(vals, "c.ReplicationFactor")
			if !ok || !ok2 || n == 0 || rf < 0 || rf > 64 {
				// no model (the solver gave none): scripted sweep over small replica lists, every member and every mode
				return ctlMock + `
func TestZZReplay(t *testing.T) {
	all := []types.Mode{types.RW, types.WO, types.ERR}
	for n := 1; n <= 3; n++ {
		for mask := 0; mask < 1<<uint(n); mask++ {
			for target := 0; target < n; target++ {
				for _, mode := range all {
					modes := make([]types.Mode, n)
					for i := range modes {
						modes[i] = types.RW
						if mask&(1<<uint(i)) != 0 {
							modes[i] = types.WO
						}
					}
					c, _ := zzController(n, modes, 1<<30)
					addr := c.replicas[target].Address
					before := fmt.Sprintf("%+v RO=%v RWcount=%d", c.replicas, c.ReadOnly, c.RWReplicaCount)
					err := c.SetReplicaMode(addr, mode)
					rw := 0
					for _, r := range c.replicas {
						if r.Mode == types.RW {
							rw++
						}
					}
					wantRO := rw < (c.ReplicationFactor+c.quorumReplicaCount)/2+1
					if c.RWReplicaCount != rw || c.ReadOnly != wantRO {
						t.Logf("RF=%d before: %s; SetReplicaMode(%q,%q) err=%v; after: %+v RO=%v RWcount=%d (actual RW entries %d, read-only should be %v)",
							c.ReplicationFactor, before, addr, mode, err, c.replicas, c.ReadOnly, c.RWReplicaCount, rw, wantRO)
						t.Fatalf("REPLAY-REPRODUCED: after the call returned (lock released) the reported RW count / read-only status disagree with the replica list")
					}
				}
			}
		}
	}
	t.Log("REPLAY-NOT-REPRODUCED")
}
`, true
			}
			addr, known := addrOf[vals["address"]]
			if !known {
				addr = "tcp://10.9.9.9:9502"
			}
			mode := strings.TrimPrefix(vals["mode"], "str:")
			body := fmt.Sprintf(`
func TestZZReplay(t *testing.T) {
	c, _ := zzController(%d, %s, 1<<30)
	before := fmt.Sprintf("%%+v RO=%%v RWcount=%%d", c.replicas, c.ReadOnly, c.RWReplicaCount)
	err := c.SetReplicaMode(%q, types.Mode(%q))
	rw := 0
	for _, r := range c.replicas {
		if r.Mode == types.RW {
			rw++
		}
	}
	wantRO := rw < (c.ReplicationFactor+c.quorumReplicaCount)/2+1
	t.Logf("RF=%%d before: %%s; SetReplicaMode(%%q,%%q) err=%%v; after: %%+v RO=%%v RWcount=%%d (actual RW entries %%d, read-only should be %%v)",
		c.ReplicationFactor, before, %q, %q, err, c.replicas, c.ReadOnly, c.RWReplicaCount, rw, wantRO)
	if c.RWReplicaCount != rw || c.ReadOnly != wantRO {
		t.Fatalf("REPLAY-REPRODUCED: after the call returned (lock released) the reported RW count / read-only status disagree with the replica list")
	}
	t.Log("REPLAY-NOT-REPRODUCED")
}
`, rf, modes, addr, mode, addr, mode)
			return ctlMock + body, true
		},
	})
}

func strVal(v string) string {
	if strings.HasPrefix(v, "str:") {
		return strings.TrimPrefix(v, "str:")
	}
	return strings.ReplaceAll(v, "Str!val!", "s")
}

func init() {
	// registerReplica: election loop / leader preconditions (C09)
	replayTemplates = append(replayTemplates, replayTemplate{
		match: func(o *Obligation) bool {
			return o.Fn == "controller.Controller.registerReplica" && (strings.HasPrefix(o.Kind, "inv#2") || strings.HasPrefix(o.Kind, "callpre:SignalToAdd"))
		},
		pkg: "controller",
		gen: func(o *Obligation, vals map[string]string) (string, bool) {
			reg := map[string]string{}
			for _, f := range []string{"Address", "UUID", "RepType", "RepState"} {
				reg[f] = strVal(vals["register."+f])
			}
			rev, ok := intVal(vals, "register.RevCount")
			if !ok {
				return "", false
			}
			// entries of c.RegisteredReplicas the model knows about
			type ent struct{ key, uuid, state string; rev int64 }
			seen := map[string]bool{}
			var ents []ent
			var ks []string
			for k := range vals {
				if strings.HasPrefix(k, "c.RegisteredReplicas@here[") && strings.HasSuffix(k, "].in") && vals[k] == "true" {
					ks = append(ks, strings.TrimSuffix(k, ".in"))
				}
			}
			sortStrings(ks)
			for _, pre := range ks {
				inner := pre[len("c.RegisteredReplicas@here[") : len(pre)-1]
				key := strVal(vals[inner])
				if key == "" || seen[key] || key == reg["Address"] {
					continue
				}
				seen[key] = true
				r, _ := intVal(vals, pre+".RevCount")
				ents = append(ents, ent{key, strVal(vals[pre+".UUID"]), strVal(vals[pre+".RepState"]), r})
			}
			if len(ents) == 0 {
				return "", false
			}
			var pre strings.Builder
			for _, e := range ents {
				uuid := e.uuid
				if uuid == "" {
					uuid = "u-" + e.key
				}
				fmt.Fprintf(&pre, "\t\tc.RegisteredReplicas[%q] = types.RegReplica{Address: %q, UUID: %q, RevCount: %d, RepState: %q}\n", e.key, e.key, uuid, e.rev, e.state)
			}
			uuid := reg["UUID"]
			if uuid == "" {
				uuid = "u-reg"
			}
			body := fmt.Sprintf(`
type zzFactory struct{ signals [][2]string }

func (f *zzFactory) Create(address string) (types.Backend, error) { return &zzBackend{name: address}, nil }
func (f *zzFactory) SignalToAdd(a, action string) error               { f.signals = append(f.signals, [2]string{a, action}); return nil }
func (f *zzFactory) VerifyReplicaAlive(string) bool                  { return true }

func TestZZReplay(t *testing.T) {
	for try := 0; try < 40; try++ { // map iteration order varies
		f := &zzFactory{}
		c := NewController(WithRF(3), WithFrontend(zzFrontend{}, ""), WithBackend(f))
%s
		reg := types.RegReplica{Address: %q, UUID: %q, RevCount: %d, RepType: %q, RepState: %q}
		if err := c.registerReplica(reg); err != nil {
			t.Fatalf("registerReplica: %%v", err)
		}
		for _, s := range f.signals {
			if s[1] != "start" {
				continue
			}
			picked, ok := c.RegisteredReplicas[s[0]]
			bad := !ok || picked.RepState == "rebuilding"
			for _, r := range c.RegisteredReplicas {
				if r.RepState != "rebuilding" && r.RevCount > picked.RevCount {
					bad = true
				}
			}
			if bad {
				t.Fatalf("REPLAY-REPRODUCED: start signalled to %%q (%%+v) although the registered non-rebuilding replicas are %%+v", s[0], picked, c.RegisteredReplicas)
			}
		}
	}
	t.Log("REPLAY-NOT-REPRODUCED")
}
`, pre.String(), reg["Address"], uuid, rev, reg["RepType"], reg["RepState"])
			return ctlMock + body, true
		},
	})
}

func sortStrings(xs []string) {
	for i := 1; i < len(xs); i++ {
		for j := i; j > 0 && xs[j] < xs[j-1]; j-- {
			xs[j], xs[j-1] = xs[j-1], xs[j]
		}
	}
}

func init() {
	// Start: status part of the lock invariant at the error exits
	replayTemplates = append(replayTemplates, replayTemplate{
		match: func(o *Obligation) bool {
			return o.Fn == "controller.Controller.Start" && strings.HasPrefix(o.Kind, "lockinv.status")
		},
		scripted: true,
		pkg: "controller",
		gen: func(o *Obligation, vals map[string]string) (string, bool) {
			rf, ok := intVal(vals, "c.ReplicationFactor")
			if !ok || rf < 1 || rf > 64 {
				rf = 1
			}
			// which exit: ret#5 = GetRevisionCounter fails after the replicas were added; ret#4 = a later address fails to attach
			failCounter := strings.Contains(o.Key, "ret#5")
			body := fmt.Sprintf(`
type zzStartBackend struct {
	zzBackend
	failCounter bool
}

func (b *zzStartBackend) GetRevisionCounter() (int64, error) {
	if b.failCounter {
		return 0, fmt.Errorf("injected GetRevisionCounter failure")
	}
	return 1, nil
}

type zzStartFactory struct{ n int; failCounter bool }

func (f *zzStartFactory) Create(address string) (types.Backend, error) {
	f.n++
	if !f.failCounter && f.n == 2 {
		return nil, fmt.Errorf("injected Create failure for the second address")
	}
	return &zzStartBackend{zzBackend: zzBackend{name: address, monitor: make(types.MonitorChannel, 2)}, failCounter: f.failCounter}, nil
}
func (f *zzStartFactory) SignalToAdd(a, action string) error { return nil }
func (f *zzStartFactory) VerifyReplicaAlive(string) bool    { return true }

func TestZZReplay(t *testing.T) {
	f := &zzStartFactory{failCounter: %v}
	c := NewController(WithRF(%d), WithFrontend(zzFrontend{}, ""), WithBackend(f))
	c.MaxRevReplica = "10.0.0.1"
	err := c.Start("tcp://10.0.0.1:9502", "tcp://10.0.0.2:9502")
	rw := 0
	for _, r := range c.replicas {
		if r.Mode == types.RW {
			rw++
		}
	}
	wantRO := rw < (c.ReplicationFactor+c.quorumReplicaCount)/2+1
	t.Logf("Start err=%%v; replicas=%%+v RO=%%v RWcount=%%d (actual RW entries %%d, read-only should be %%v)", err, c.replicas, c.ReadOnly, c.RWReplicaCount, rw, wantRO)
	if err != nil && len(c.replicas) > 0 && (c.RWReplicaCount != rw || c.ReadOnly != wantRO) {
		t.Fatalf("REPLAY-REPRODUCED: Start failed and released the lock with the reported RW count / read-only status disagreeing with the replica list")
	}
	t.Log("REPLAY-NOT-REPRODUCED")
}
`, failCounter, rf)
			return ctlMock + body, true
		},
	})
}

func init() {
	// Snapshot / Resize: status part of the lock invariant after handleErrorNoLock marked replicas ERR
	replayTemplates = append(replayTemplates, replayTemplate{
		match: func(o *Obligation) bool {
			return o.Fn == "controller.Controller.Snapshot" && strings.HasPrefix(o.Kind, "lockinv.status")
		},
		scripted: true,
		pkg: "controller",
		gen: func(o *Obligation, vals map[string]string) (string, bool) {
			body := `
func TestZZReplay(t *testing.T) {
	// every replica answers GET /v1/replicas/1 (Snapshot asks one RW replica for its chain first)
	srv := httptest.NewServer(http.HandlerFunc(func(w http.ResponseWriter, r *http.Request) {
		w.Header().Set("Content-Type", "application/json")
		w.Write([]byte("{\"chain\": [\"volume-head-001.img\", \"volume-snap-s0.img\"]}"))
	}))
	defer srv.Close()
	base := "tcp://" + strings.TrimPrefix(srv.URL, "http://")
	c := NewController(WithRF(3), WithFrontend(zzFrontend{}, ""))
	var bs []*zzBackend
	for i := 0; i < 3; i++ {
		addr := base
		if i > 0 {
			addr = fmt.Sprintf("tcp://10.0.0.%d:9502", i)
		}
		b := &zzBackend{name: addr, failSnap: i > 0}
		bs = append(bs, b)
		c.replicas = append([]types.Replica{{Address: addr, Mode: types.WO}}, c.replicas...)
		c.backend.AddBackend(addr, b)
		c.setReplicaModeNoLock(addr, types.RW)
	}
	c.size = 1 << 30
	c.UpdateVolStatus()
	_, err := c.Snapshot("s1")
	rw := 0
	for _, r := range c.replicas {
		if r.Mode == types.RW {
			rw++
		}
	}
	wantRO := rw < (c.ReplicationFactor+c.quorumReplicaCount)/2+1
	t.Logf("Snapshot err=%v; replicas=%+v RO=%v RWcount=%d (actual RW entries %d, read-only should be %v)", err, c.replicas, c.ReadOnly, c.RWReplicaCount, rw, wantRO)
	if c.RWReplicaCount != rw || c.ReadOnly != wantRO {
		n, werr := c.WriteAt(make([]byte, 4096), 0)
		t.Fatalf("REPLAY-REPRODUCED: Snapshot released the lock with the status stale; a write issued right after returned n=%d err=%v with %d of %d replicas RW", n, werr, rw, c.ReplicationFactor)
	}
	t.Log("REPLAY-NOT-REPRODUCED")
}
`
			src := strings.Replace(ctlMock, `import (
	"fmt"`, `import (
	"fmt"
	"net/http"
	"net/http/httptest"
	"strings"`, 1)
			return src + body, true
		},
	})
}

func init() {
	// VerifyRebuildReplica: slice bounds of rwChain[1:indx+1] / chain[1:indx+1]
	replayTemplates = append(replayTemplates, replayTemplate{
		match: func(o *Obligation) bool {
			return o.Fn == "controller.Controller.VerifyRebuildReplica" && o.Kind == "slice"
		},
		pkg: "controller",
		gen: func(o *Obligation, vals map[string]string) (string, bool) {
			l1, ok1 := intVal(vals, "len(local:rwChain)")
			l2, ok2 := intVal(vals, "len(local:chain)")
			if !ok1 || l1 < 0 || l1 > 64 {
				return "", false
			}
			if !ok2 || l2 < 0 || l2 > 64 {
				l2 = 0
			}
			body := fmt.Sprintf(`
func zzChainServer(n int) *httptest.Server {
	chain := []string{}
	for i := 0; i < n; i++ {
		chain = append(chain, fmt.Sprintf("\"volume-snap-%%d.img\"", i))
	}
	return httptest.NewServer(http.HandlerFunc(func(w http.ResponseWriter, r *http.Request) {
		w.Header().Set("Content-Type", "application/json")
		w.Write([]byte("{\"chain\": [" + strings.Join(chain, ",") + "], \"checkpoint\": \"\"}"))
	}))
}

func TestZZReplay(t *testing.T) {
	rwSrv, woSrv := zzChainServer(%d), zzChainServer(%d)
	defer rwSrv.Close()
	defer woSrv.Close()
	rwAddr := "tcp://" + strings.TrimPrefix(rwSrv.URL, "http://")
	woAddr := "tcp://" + strings.TrimPrefix(woSrv.URL, "http://")
	c := NewController(WithRF(2), WithFrontend(zzFrontend{}, ""))
	for i, addr := range []string{rwAddr, woAddr} {
		c.replicas = append(c.replicas, types.Replica{Address: addr, Mode: types.WO})
		c.backend.AddBackend(addr, &zzBackend{name: addr})
		if i == 0 {
			c.setReplicaModeNoLock(addr, types.RW)
		}
	}
	c.UpdateVolStatus()
	defer func() {
		if r := recover(); r != nil {
			t.Fatalf("REPLAY-REPRODUCED: VerifyRebuildReplica panicked in the request handler path (RW chain of %%d, WO chain of %%d): %%v", %d, %d, r)
		}
	}()
	err := c.VerifyRebuildReplica(woAddr)
	t.Logf("VerifyRebuildReplica err=%%v", err)
	t.Log("REPLAY-NOT-REPRODUCED")
}
`, l1, l2, l1, l2)
			src := strings.Replace(ctlMock, `import (
	"fmt"`, `import (
	"fmt"
	"net/http"
	"net/http/httptest"
	"strings"`, 1)
			return src + body, true
		},
	})
}

const ctlHTTPImports = `import (
	"fmt"
	"net/http"
	"net/http/httptest"
	"strings"`

func ctlMockHTTP() string {
	return strings.Replace(ctlMock, "import (\n\t\"fmt\"", ctlHTTPImports, 1)
}

func init() {
	// Revert: status part of the lock invariant after replicas failed to revert (scripted scenario: RF=3, two of three fail)
	replayTemplates = append(replayTemplates, replayTemplate{
		match: func(o *Obligation) bool {
			return o.Fn == "controller.Controller.Revert" && strings.HasPrefix(o.Kind, "lockinv.status")
		},
		scripted: true,
		pkg: "controller",
		gen: func(o *Obligation, vals map[string]string) (string, bool) {
			body := `
func zzRevertServer(fail bool) *httptest.Server {
	var srv *httptest.Server
	srv = httptest.NewServer(http.HandlerFunc(func(w http.ResponseWriter, r *http.Request) {
		if r.Method == "POST" {
			if fail {
				http.Error(w, "injected revert failure", 500)
			}
			return
		}
		w.Header().Set("Content-Type", "application/json")
		w.Write([]byte("{\"chain\": [\"volume-head-001.img\", \"volume-snap-s0.img\"], \"actions\": {\"revert\": \"" + srv.URL + "/v1/replicas/1?action=revert\"}}"))
	}))
	return srv
}

func TestZZReplay(t *testing.T) {
	c := NewController(WithRF(3), WithFrontend(zzFrontend{}, ""))
	for i := 0; i < 3; i++ {
		srv := zzRevertServer(i > 0)
		defer srv.Close()
		addr := "tcp://" + strings.TrimPrefix(srv.URL, "http://")
		c.replicas = append(c.replicas, types.Replica{Address: addr, Mode: types.WO})
		c.backend.AddBackend(addr, &zzBackend{name: addr})
		c.setReplicaModeNoLock(addr, types.RW)
	}
	c.size = 1 << 30
	c.UpdateVolStatus()
	err := c.Revert("s0")
	rw := 0
	for _, r := range c.replicas {
		if r.Mode == types.RW {
			rw++
		}
	}
	wantRO := rw < (c.ReplicationFactor+c.quorumReplicaCount)/2+1
	t.Logf("Revert err=%v; replicas=%+v RO=%v RWcount=%d (actual RW entries %d, read-only should be %v)", err, c.replicas, c.ReadOnly, c.RWReplicaCount, rw, wantRO)
	if c.RWReplicaCount != rw || c.ReadOnly != wantRO {
		n, werr := c.WriteAt(make([]byte, 4096), 0)
		t.Fatalf("REPLAY-REPRODUCED: Revert released the lock with the status stale; a write issued right after returned n=%d err=%v with %d of %d replicas RW", n, werr, rw, c.ReplicationFactor)
	}
	t.Log("REPLAY-NOT-REPRODUCED")
}
`
			return ctlMockHTTP() + body, true
		},
	})
	// PrepareRebuildReplica: chain[0] / rwChain[1:] without length checks (scripted: replicas report an empty chain)
	replayTemplates = append(replayTemplates, replayTemplate{
		match: func(o *Obligation) bool {
			return o.Fn == "controller.Controller.PrepareRebuildReplica" && (o.Kind == "index" || o.Kind == "slice")
		},
		scripted: true,
		pkg: "controller",
		gen: func(o *Obligation, vals map[string]string) (string, bool) {
			body := `
func TestZZReplay(t *testing.T) {
	srv := httptest.NewServer(http.HandlerFunc(func(w http.ResponseWriter, r *http.Request) {
		w.Header().Set("Content-Type", "application/json")
		w.Write([]byte("{\"chain\": []}")) // e.g. a replica that is not open reports no chain
	}))
	defer srv.Close()
	c := NewController(WithRF(2), WithFrontend(zzFrontend{}, ""))
	rwAddr := "tcp://" + strings.TrimPrefix(srv.URL, "http://")
	woAddr := strings.Replace(rwAddr, "127.0.0.1", "localhost", 1)
	for i, addr := range []string{rwAddr, woAddr} {
		c.replicas = append(c.replicas, types.Replica{Address: addr, Mode: types.WO})
		c.backend.AddBackend(addr, &zzBackend{name: addr})
		if i == 0 {
			c.setReplicaModeNoLock(addr, types.RW)
		}
	}
	c.UpdateVolStatus()
	defer func() {
		if r := recover(); r != nil {
			t.Fatalf("REPLAY-REPRODUCED: PrepareRebuildReplica panicked in the request handler path: %v", r)
		}
	}()
	_, err := c.PrepareRebuildReplica(woAddr)
	t.Logf("PrepareRebuildReplica err=%v", err)
	t.Log("REPLAY-NOT-REPRODUCED")
}
`
			return ctlMockHTTP() + body, true
		},
	})
}

func init() {
	// addQuorumReplica: status part of the lock invariant at the error exits after the quorum replica was appended
	replayTemplates = append(replayTemplates, replayTemplate{
		match: func(o *Obligation) bool {
			return o.Fn == "controller.Controller.addQuorumReplica" && strings.HasPrefix(o.Kind, "lockinv.status")
		},
		scripted: true,
		pkg: "controller",
		gen: func(o *Obligation, vals map[string]string) (string, bool) {
			body := `
type zzQBackend struct{ zzBackend }

func (b *zzQBackend) SetRebuilding(bool) error { return fmt.Errorf("injected SetRebuilding failure") }

type zzQFactory struct{}

func (zzQFactory) Create(address string) (types.Backend, error) {
	return &zzQBackend{zzBackend{name: address, monitor: make(types.MonitorChannel, 2)}}, nil
}
func (zzQFactory) SignalToAdd(a, action string) error { return nil }
func (zzQFactory) VerifyReplicaAlive(string) bool    { return true }

func TestZZReplay(t *testing.T) {
	c, _ := zzController(1, []types.Mode{types.RW}, 1<<30)
	c.factory = zzQFactory{}
	before := fmt.Sprintf("RO=%v RWcount=%d", c.ReadOnly, c.RWReplicaCount)
	err := c.AddQuorumReplica("tcp://10.0.9.9:9502")
	rw := 0
	for _, r := range append(append([]types.Replica{}, c.replicas...), c.quorumReplicas...) {
		if r.Mode == types.RW {
			rw++
		}
	}
	wantRO := rw < (c.ReplicationFactor+c.quorumReplicaCount)/2+1
	t.Logf("before: %s; AddQuorumReplica err=%v; quorumReplicas=%+v quorumReplicaCount=%d RO=%v RWcount=%d (RW entries %d, read-only should be %v)",
		before, err, c.quorumReplicas, c.quorumReplicaCount, c.ReadOnly, c.RWReplicaCount, rw, wantRO)
	if err != nil && (c.RWReplicaCount != rw || c.ReadOnly != wantRO) {
		t.Fatalf("REPLAY-REPRODUCED: AddQuorumReplica failed after attaching the quorum replica and released the lock with the status stale")
	}
	t.Log("REPLAY-NOT-REPRODUCED")
}
`
			return ctlMock + body, true
		},
	})
}

const ctlGateFactory = `
type zzGateBackend struct{ zzBackend }

func (b *zzGateBackend) Size() (int64, error) { return 1 << 20, nil }

type zzGateFactory struct {
	gate    map[string]chan struct{}
	entered chan string
}

func (f *zzGateFactory) Create(address string) (types.Backend, error) {
	if g, ok := f.gate[address]; ok {
		f.entered <- address
		<-g
	}
	return &zzGateBackend{zzBackend{name: address, monitor: make(types.MonitorChannel, 2)}}, nil
}
func (f *zzGateFactory) SignalToAdd(a, action string) error { return nil }
func (f *zzGateFactory) VerifyReplicaAlive(string) bool    { return true }
`

func init() {
	// addReplica: the replication-factor admission test is made in a first critical section, the replica is
	// appended in a second one (scripted interleaving: a second add and its promotion run in between)
	replayTemplates = append(replayTemplates, replayTemplate{
		match: func(o *Obligation) bool {
			return o.Fn == "controller.Controller.addReplica" && strings.HasPrefix(o.Kind, "lockinv.bounded")
		},
		scripted: true,
		pkg:      "controller",
		gen: func(o *Obligation, vals map[string]string) (string, bool) {
			body := `
func TestZZReplay(t *testing.T) {
	t.Setenv("REPLICATION_FACTOR", "2")
	slow := "tcp://10.0.0.2:9502"
	fac := &zzGateFactory{gate: map[string]chan struct{}{slow: make(chan struct{})}, entered: make(chan string, 1)}
	c, _ := zzController(2, []types.Mode{types.RW}, 1<<20)
	c.factory = fac
	done := make(chan error, 1)
	go func() { done <- c.AddReplica(slow) }()
	<-fac.entered // the first add passed the admission tests, released the lock and is connecting
	if err := c.AddReplica("tcp://10.0.0.3:9502"); err != nil {
		t.Logf("second add refused: %v", err)
	} else if err := c.SetReplicaMode("tcp://10.0.0.3:9502", types.RW); err != nil { // its rebuild finished
		t.Logf("promotion failed: %v", err)
	}
	close(fac.gate[slow])
	err := <-done
	t.Logf("first add: err=%v; replicas=%+v replication factor 2", err, c.ListReplicas())
	if len(c.ListReplicas()) > 2 {
		t.Fatalf("REPLAY-REPRODUCED: %d data replicas attached with replication factor 2", len(c.ListReplicas()))
	}
	t.Log("REPLAY-NOT-REPRODUCED")
}
`
			return ctlMock + ctlGateFactory + body, true
		},
	})
	// Start: every address of the request is attached, however many
	replayTemplates = append(replayTemplates, replayTemplate{
		match: func(o *Obligation) bool {
			return o.Fn == "controller.Controller.Start" && strings.HasPrefix(o.Kind, "lockinv.bounded")
		},
		scripted: true,
		pkg:      "controller",
		gen: func(o *Obligation, vals map[string]string) (string, bool) {
			body := `
func TestZZReplay(t *testing.T) {
	t.Setenv("REPLICATION_FACTOR", "1")
	c, _ := zzController(1, nil, 1<<20)
	c.factory = &zzGateFactory{gate: map[string]chan struct{}{}}
	c.MaxRevReplica = "10.0.0.1"
	c.StartSignalled = true
	err := c.Start("tcp://10.0.0.1:9502", "tcp://10.0.0.2:9502")
	t.Logf("Start err=%v replicas=%+v replication factor 1", err, c.ListReplicas())
	if len(c.ListReplicas()) > 1 {
		t.Fatalf("REPLAY-REPRODUCED: %d data replicas attached with replication factor 1", len(c.ListReplicas()))
	}
	t.Log("REPLAY-NOT-REPRODUCED")
}
`
			return ctlMock + ctlGateFactory + body, true
		},
	})
}
