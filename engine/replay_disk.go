package main

import (
	"strings"
)

// R-disk: replays on a real replica directory (sparse files, FIEMAP); hole requests are read back
// from HoleCreatorChan (the CreateHoles goroutine is not started).

const diskPrelude = `package replica

import (
	"io/ioutil"
	"os"
	"testing"

	"github.com/openebs/jiva/types"
)

const zzB = 4096

func zzFill(v byte, n int) []byte {
	b := make([]byte, n)
	for i := range b {
		b[i] = v
	}
	return b
}

func zzMust(t *testing.T, err error) {
	if err != nil {
		t.Fatalf("replay setup: %v", err)
	}
}

// zzDrainHoles returns the hole requests queued so far.
func zzDrainHoles() []Hole {
	var hs []Hole
	for {
		select {
		case h := <-HoleCreatorChan:
			hs = append(hs, h)
		default:
			return hs
		}
	}
}

// zzCheckHoles: every queued hole must be on a file strictly above the latest user snapshot, strictly
// below the head, and cover only blocks whose current owner is the head.
func zzCheckHoles(t *testing.T, r *Replica, hs []Hole) {
	d := &r.volume
	head := len(d.files) - 1
	for _, h := range hs {
		idx := -1
		for i, f := range d.files {
			if f != nil && f == h.f {
				idx = i
			}
		}
		bad := idx <= d.SnapIndx || idx >= head
		for b := h.offset / zzB; b < (h.offset+h.len)/zzB; b++ {
			if int(b) >= len(d.location) || int(d.location[b]) != head {
				bad = true
			}
		}
		if bad {
			t.Fatalf("REPLAY-REPRODUCED: hole requested on chain file index %d (latest user snapshot index %d, head %d) offset %d len %d; block map %v", idx, d.SnapIndx, head, h.offset, h.len, d.location)
		}
	}
}

var _ = ioutil.TempDir
var _ = os.RemoveAll
var _ = types.RW
`

func init() {
	// fullWriteAt: hole requests (PunchSafe) - scripted layout [3 1 0 0] with a user snapshot at index 2
	replayTemplates = append(replayTemplates, replayTemplate{
		match: func(o *Obligation) bool {
			return o.Fn == "replica.diffDisk.fullWriteAt" && strings.HasPrefix(o.Kind, "callpre:sendToCreateHole")
		},
		scripted: true,
		pkg:      "replica",
		tags:     "debug",
		gen: func(o *Obligation, vals map[string]string) (string, bool) {
			body := `
func TestZZReplay(t *testing.T) {
	dir, err := ioutil.TempDir("", "zzreplay")
	zzMust(t, err)
	defer os.RemoveAll(dir)
	types.ShouldPunchHoles = true
	defer func() { types.ShouldPunchHoles = false }()
	r, err := New(true, 4*zzB, zzB, dir, nil, "Backend")
	zzMust(t, err)
	defer r.Close()
	zzMust(t, r.SetReplicaMode("RW"))
	// block 1 -> file 1 (base), user snapshot -> file 2, block 0 -> file 3, head = 4
	_, err = r.WriteAt(zzFill(1, zzB), 1*zzB)
	zzMust(t, err)
	zzMust(t, r.Snapshot("s1", false, "t1"))
	zzMust(t, r.Snapshot("u2", true, "t2"))
	_, err = r.WriteAt(zzFill(3, zzB), 0)
	zzMust(t, err)
	zzMust(t, r.Snapshot("s3", false, "t3"))
	zzDrainHoles()
	t.Logf("before: block map %v SnapIndx %d files %d", r.volume.location, r.volume.SnapIndx, len(r.volume.files))
	// one 8 KiB write over blocks owned by files 3 and 1
	_, err = r.WriteAt(zzFill(9, 2*zzB), 0)
	zzMust(t, err)
	zzCheckHoles(t, r, zzDrainHoles())
	t.Log("REPLAY-NOT-REPRODUCED")
}
`
			return diskPrelude + body, true
		},
	})
}

func init() {
	// Server.Start: blocking channel send while holding the server lock
	replayTemplates = append(replayTemplates, replayTemplate{
		match: func(o *Obligation) bool {
			return (o.Fn == "replica.Server.Start" || o.Fn == "replica/rest.Server.StartReplica") && strings.HasPrefix(o.Kind, "block-under-lock")
		},
		scripted: true,
		pkg:      "replica",
		tags:     "debug",
		gen: func(o *Obligation, vals map[string]string) (string, bool) {
			return `package replica

import (
	"io/ioutil"
	"os"
	"testing"
	"time"
)

func TestZZReplay(t *testing.T) {
	dir, _ := ioutil.TempDir("", "zzreplay")
	defer os.RemoveAll(dir)
	s := NewServer("127.0.0.1:0", dir, 4096, "Backend")
	// nobody drains ActionChannel (the sync loop reads it only while registering): send capacity+1 start requests
	for i := 0; i < cap(ActionChannel)+1; i++ {
		go s.Start("start")
	}
	time.Sleep(500 * time.Millisecond)
	done := make(chan bool, 1)
	go func() { s.RLock(); s.RUnlock(); done <- true }() // what every WriteAt/ReadAt does first
	select {
	case <-done:
		t.Log("REPLAY-NOT-REPRODUCED")
	case <-time.After(2 * time.Second):
		t.Fatalf("REPLAY-REPRODUCED: after %d undrained start requests the server lock is held forever by a handler blocked on ActionChannel; all I/O on the replica is wedged", cap(ActionChannel)+1)
	}
}
`, true
		},
	})
}

func init() {
	// encodeToFile: the temporary file is renamed over the metadata although the encoder failed
	replayTemplates = append(replayTemplates, replayTemplate{
		match: func(o *Obligation) bool {
			return o.Fn == "replica.Replica.encodeToFile" && (strings.HasPrefix(o.Kind, "callpre:Rename") || strings.HasPrefix(o.Kind, "post#ok") || strings.HasPrefix(o.Kind, "post#fail"))
		},
		scripted: true,
		pkg:      "replica",
		tags:     "debug",
		gen: func(o *Obligation, vals map[string]string) (string, bool) {
			return `package replica

import (
	"io/ioutil"
	"math"
	"os"
	"path/filepath"
	"testing"
)

func TestZZReplay(t *testing.T) {
	dir, _ := ioutil.TempDir("", "zzreplay")
	defer os.RemoveAll(dir)
	r := &Replica{dir: dir}
	good := map[string]string{"head": "volume-head-000.img"}
	if err := r.encodeToFile(good, "volume.meta"); err != nil {
		t.Fatalf("setup: %v", err)
	}
	before, _ := ioutil.ReadFile(filepath.Join(dir, "volume.meta"))
	// an object the JSON encoder cannot encode: the write of the temporary file fails part-way
	err := r.encodeToFile(math.Inf(1), "volume.meta")
	after, _ := ioutil.ReadFile(filepath.Join(dir, "volume.meta"))
	t.Logf("encodeToFile(unencodable) err=%v; volume.meta before=%q after=%q", err, before, after)
	if err == nil || string(after) != string(before) {
		t.Fatalf("REPLAY-REPRODUCED: a failed encode was reported as err=%v and volume.meta went from %d to %d bytes", err, len(before), len(after))
	}
	t.Log("REPLAY-NOT-REPRODUCED")
}
`, true
		},
	})
}

func init() {
	// revertDisk: the revert target itself is unlinked (target == current head)
	replayTemplates = append(replayTemplates, replayTemplate{
		match: func(o *Obligation) bool {
			return o.Fn == "replica.Replica.revertDisk" && strings.HasPrefix(o.Kind, "callpre:rmDisk")
		},
		scripted: true,
		pkg:      "replica",
		tags:     "debug",
		gen: func(o *Obligation, vals map[string]string) (string, bool) {
			body := `
func TestZZReplay(t *testing.T) {
	dir, err := ioutil.TempDir("", "zzreplay")
	zzMust(t, err)
	defer os.RemoveAll(dir)
	r, err := New(true, 4*zzB, zzB, dir, nil, "Backend")
	zzMust(t, err)
	zzMust(t, r.SetReplicaMode("RW"))
	_, err = r.WriteAt(zzFill(7, zzB), 0)
	zzMust(t, err)
	zzMust(t, r.Snapshot("s1", true, "t1"))
	_, err = r.WriteAt(zzFill(8, zzB), zzB)
	zzMust(t, err)
	head := r.info.Head
	_, rerr := r.Revert(head, "t2") // out-of-state request: the head is not a snapshot
	r.Close()
	r2, oerr := New(true, 4*zzB, zzB, dir, nil, "Backend")
	t.Logf("Revert(%q) err=%v; reopen err=%v", head, rerr, oerr)
	if oerr != nil {
		t.Fatalf("REPLAY-REPRODUCED: after a refused revert to the head the replica directory cannot be reopened: %v", oerr)
	}
	buf := make([]byte, zzB)
	if _, err := r2.ReadAt(buf, zzB); err != nil || buf[0] != 8 {
		t.Fatalf("REPLAY-REPRODUCED: after a refused revert to the head acknowledged data is gone (block 1 reads %d, err %v)", buf[0], err)
	}
	r2.Close()
	t.Log("REPLAY-NOT-REPRODUCED")
}
`
			return diskPrelude + body, true
		},
	})
}

func init() {
	// RemoveDiffDisk guards (C11/C12): the base snapshot and a name without metadata must be refused.
	replayTemplates = append(replayTemplates, replayTemplate{
		match: func(o *Obligation) bool {
			return o.Fn == "replica.Replica.RemoveDiffDisk" && (strings.HasPrefix(o.Kind, "callpre:removeDiskNode") || strings.HasPrefix(o.Kind, "callpre:rmDisk") || strings.HasPrefix(o.Kind, "post#refused"))
		},
		scripted: true,
		pkg:      "replica",
		tags:     "debug",
		gen: func(o *Obligation, vals map[string]string) (string, bool) {
			body := `
func TestZZReplay(t *testing.T) {
	dir, err := ioutil.TempDir("", "zzreplay")
	zzMust(t, err)
	defer os.RemoveAll(dir)
	r, err := New(true, 4*zzB, zzB, dir, nil, "Backend")
	zzMust(t, err)
	defer r.Close()
	zzMust(t, r.SetReplicaMode("RW"))
	r.holeDrainer = func() {}
	_, err = r.WriteAt(zzFill(1, zzB), 0)
	zzMust(t, err)
	zzMust(t, r.Snapshot("000", true, "t0"))
	zzMust(t, r.Snapshot("001", true, "t1"))
	zzMust(t, r.Snapshot("002", true, "t2"))
	// chain: head -> snap-002 (latest) -> snap-001 -> snap-000 (base)
	reproduced := false
	// (1) a name with no metadata: files <name> and <name>.meta must not be unlinked
	if err := r.RemoveDiffDisk("volume.meta"); err == nil {
		if _, serr := os.Stat(dir + "/volume.meta"); serr != nil {
			t.Logf("RemoveDiffDisk(\"volume.meta\") returned nil and volume.meta is gone: %v", serr)
			reproduced = true
		}
	}
	// (2) the base snapshot
	before := len(r.activeDiskData)
	if err := r.RemoveDiffDisk("volume-snap-000.img"); err == nil {
		buf := make([]byte, zzB)
		r.ReadAt(buf, 0)
		t.Logf("RemoveDiffDisk(base) accepted: chain length %d -> %d, block 0 now reads %d (was 1)", before, len(r.activeDiskData), buf[0])
		reproduced = true
	}
	// (3) head and latest snapshot stay refused
	if err := r.RemoveDiffDisk(r.info.Head); err == nil {
		t.Log("head accepted")
		reproduced = true
	}
	if err := r.RemoveDiffDisk(r.info.Parent); err == nil {
		t.Log("latest snapshot accepted")
		reproduced = true
	}
	if reproduced {
		t.Fatal("REPLAY-REPRODUCED")
	}
	t.Log("REPLAY-NOT-REPRODUCED")
}
`
			return diskPrelude + body, true
		},
	})
}

func init() {
	// createDisk cleanup (C12/C06): a refused snapshot request must not unlink files it did not create.
	replayTemplates = append(replayTemplates, replayTemplate{
		match: func(o *Obligation) bool {
			return o.Fn == "replica.Replica.createDisk" && strings.HasPrefix(o.Kind, "callpre:rmDisk#ownfiles")
		},
		scripted: true,
		pkg:      "replica",
		tags:     "debug",
		gen: func(o *Obligation, vals map[string]string) (string, bool) {
			body := `
func TestZZReplay(t *testing.T) {
	dir, err := ioutil.TempDir("", "zzreplay")
	zzMust(t, err)
	defer os.RemoveAll(dir)
	r, err := New(true, 4*zzB, zzB, dir, nil, "Backend")
	zzMust(t, err)
	defer r.Close()
	zzMust(t, r.SetReplicaMode("RW"))
	_, err = r.WriteAt(zzFill(1, zzB), 0)
	zzMust(t, err)
	zzMust(t, r.Snapshot("000", true, "t0"))
	_, err = r.WriteAt(zzFill(2, zzB), 0)
	zzMust(t, err)
	// a second request with the same name is refused ...
	if err := r.Snapshot("000", true, "t1"); err == nil {
		t.Fatal("replay setup: duplicate snapshot accepted")
	}
	// ... and must leave the existing snapshot's files alone
	for _, f := range []string{"volume-snap-000.img", "volume-snap-000.img.meta"} {
		if _, serr := os.Stat(dir + "/" + f); serr != nil {
			t.Fatalf("REPLAY-REPRODUCED: refused Snapshot(\"000\") unlinked %s of the existing snapshot: %v", f, serr)
		}
	}
	t.Log("REPLAY-NOT-REPRODUCED")
}
`
			return diskPrelude + body, true
		},
	})
}

func init() {
	// ReplaceDisk guards (C11/C12): the head (and the base snapshot) must not be accepted as the disk to drop.
	replayTemplates = append(replayTemplates, replayTemplate{
		match: func(o *Obligation) bool {
			return o.Fn == "replica.Replica.ReplaceDisk" && (strings.HasPrefix(o.Kind, "callpre:hardlinkDisk") || strings.HasPrefix(o.Kind, "pre:replica.Replica.removeDiskNode"))
		},
		scripted: true,
		pkg:      "replica",
		tags:     "debug",
		gen: func(o *Obligation, vals map[string]string) (string, bool) {
			body := `
func TestZZReplay(t *testing.T) {
	dir, err := ioutil.TempDir("", "zzreplay")
	zzMust(t, err)
	defer os.RemoveAll(dir)
	r, err := New(true, 4*zzB, zzB, dir, nil, "Backend")
	zzMust(t, err)
	defer r.Close()
	zzMust(t, r.SetReplicaMode("RW"))
	r.holeDrainer = func() {}
	_, err = r.WriteAt(zzFill(1, zzB), 0)
	zzMust(t, err)
	zzMust(t, r.Snapshot("000", true, "t0"))
	zzMust(t, r.Snapshot("001", true, "t1"))
	zzMust(t, r.Snapshot("002", true, "t2"))
	head := r.info.Head
	reproduced := false
	// the head as the disk to drop
	if err := r.ReplaceDisk("volume-snap-001.img", head); err == nil {
		_, serr := os.Stat(dir + "/" + head)
		_, inMeta := r.diskData[head]
		t.Logf("ReplaceDisk(snap-001, head) accepted: head file present=%v, head metadata present=%v", serr == nil, inMeta)
		reproduced = true
	}
	if reproduced {
		t.Fatal("REPLAY-REPRODUCED")
	}
	// the base snapshot as the disk to drop
	if err := r.ReplaceDisk("volume-snap-001.img", "volume-snap-000.img"); err == nil {
		t.Logf("ReplaceDisk(snap-001, base) accepted: chain length now %d", len(r.activeDiskData))
		t.Fatal("REPLAY-REPRODUCED")
	}
	t.Log("REPLAY-NOT-REPRODUCED")
}
`
			return diskPrelude + body, true
		},
	})
}

func init() {
	// createDisk: the commit step (volume.meta) of a snapshot fails after the in-memory chain was already updated
	// (scripted R-fs: volume.meta.tmp cannot be opened because a directory of that name exists)
	replayTemplates = append(replayTemplates, replayTemplate{
		match: func(o *Obligation) bool {
			return o.Fn == "replica.Replica.createDisk" && strings.HasPrefix(o.Kind, "post#failkeepschain")
		},
		scripted: true,
		pkg:      "replica",
		tags:     "debug",
		gen: func(o *Obligation, vals map[string]string) (string, bool) {
			return `package replica

import (
	"os"
	"path/filepath"
	"testing"
)

func TestZZReplay(t *testing.T) {
	dir, _ := os.MkdirTemp("", "zz-replay-snapfail")
	defer os.RemoveAll(dir)
	r, err := New(false, 1<<20, 4096, dir, nil, "")
	if err != nil {
		t.Fatal(err)
	}
	defer r.Close()
	if err := r.Snapshot("000a", true, "now"); err != nil {
		t.Fatal(err)
	}
	before, err := r.Chain()
	if err != nil {
		t.Fatal(err)
	}
	nFiles, nActive := len(r.volume.files), len(r.activeDiskData)
	// the commit step of the next snapshot fails: volume.meta.tmp cannot be opened
	if err := os.Mkdir(filepath.Join(dir, "volume.meta.tmp"), 0700); err != nil {
		t.Fatal(err)
	}
	err = r.Snapshot("001b", true, "now")
	t.Logf("Snapshot whose volume.meta write fails: err=%v", err)
	if err == nil {
		t.Log("REPLAY-NOT-REPRODUCED (the injected failure did not happen)")
		return
	}
	os.Remove(filepath.Join(dir, "volume.meta.tmp"))
	after, cerr := r.Chain()
	t.Logf("chain before %v, after %v (err %v); files %d->%d, activeDiskData %d->%d, head=%s", before, after, cerr, nFiles, len(r.volume.files), nActive, len(r.activeDiskData), r.info.Head)
	if cerr != nil || len(after) != len(before) || len(r.volume.files) != nFiles || len(r.activeDiskData) != nActive {
		t.Fatalf("REPLAY-REPRODUCED: a failed snapshot changed the in-memory chain (Chain() now: %v)", cerr)
	}
	t.Log("REPLAY-NOT-REPRODUCED")
}
`, true
		},
	})
}
