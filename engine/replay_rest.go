package main

import (
	"fmt"
	"strings"
)

// R-rest: a request through the real router (httptest); the lock is probed with TryLock afterwards.
// A process-killing fault (fatal error: sync: Unlock of unlocked RWMutex) shows in the test output.

var ctlRoutes = map[string][3]string{ // handler -> method, path, body
	"ListVolumes":           {"GET", "/v1/volumes", ""},
	"GetVolume":             {"GET", "/v1/volumes/dm9s", ""},
	"GetVolumeStats":        {"GET", "/v1/stats", ""},
	"GetCheckpoint":         {"GET", "/v1/checkpoint", ""},
	"StartVolume":           {"POST", "/v1/volumes/dm9s?action=start", ""},
	"ShutdownVolume":        {"POST", "/v1/volumes/dm9s?action=shutdown", ""},
	"SnapshotVolume":        {"POST", "/v1/volumes/dm9s?action=snapshot", ""},
	"RevertVolume":          {"POST", "/v1/volumes/dm9s?action=revert", ""},
	"ResizeVolume":          {"POST", "/v1/volumes/dm9s?action=resize", ""},
	"SetLogging":            {"POST", "/v1/volumes/dm9s?action=setlogging", ""},
	"DeleteSnapshot":        {"DELETE", "/v1/volumes/dm9s?action=deleteSnapshot", ""},
	"ListReplicas":          {"GET", "/v1/replicas", ""},
	"GetReplica":            {"GET", "/v1/replicas/x", ""},
	"RegisterReplica":       {"POST", "/v1/register", ""},
	"CreateReplica":         {"POST", "/v1/replicas", ""},
	"CreateQuorumReplica":   {"POST", "/v1/quorumreplicas", ""},
	"PrepareRebuildReplica": {"POST", "/v1/replicas/x?action=preparerebuild", ""},
	"VerifyRebuildReplica":  {"POST", "/v1/replicas/x?action=verifyrebuild", ""},
	"DeleteReplica":         {"DELETE", "/v1/replicas/x", ""},
	"UpdateReplica":         {"PUT", "/v1/replicas/x", ""},
	"DeleteVolume":          {"POST", "/v1/delete", ""},
}

func init() {
	// CreateQuorumReplica -> getQuorumReplica: re-acquisition of the controller lock (needs no well-formed body: the helper is called directly)
	replayTemplates = append(replayTemplates, replayTemplate{
		match: func(o *Obligation) bool {
			return o.Fn == "controller/rest.Server.CreateQuorumReplica" && strings.HasPrefix(o.Kind, "lock-free")
		},
		scripted: true,
		pkg:      "controller/rest",
		gen: func(o *Obligation, vals map[string]string) (string, bool) {
			return `package rest

import (
	"testing"
	"time"

	"github.com/openebs/jiva/controller"
)

func TestZZReplay(t *testing.T) {
	c := controller.NewController(controller.WithName("vol"), controller.WithRF(1))
	s := NewServer(c)
	done := make(chan bool, 1)
	go func() { s.getQuorumReplica(nil, "tcp://10.0.0.1:9502"); done <- true }() // what CreateQuorumReplica does after a successful add
	select {
	case <-done:
		t.Log("REPLAY-NOT-REPRODUCED")
	case <-time.After(3 * time.Second):
		if c.TryLock() {
			c.Unlock()
			t.Log("REPLAY-NOT-REPRODUCED")
			return
		}
		t.Fatalf("REPLAY-REPRODUCED: getQuorumReplica holds the controller lock and calls ListQuorumReplicas, which locks again: the handler never returns and the controller lock stays held")
	}
}
`, true
		},
	})
	replayTemplates = append(replayTemplates, replayTemplate{
		match: func(o *Obligation) bool {
			if !strings.HasPrefix(o.Fn, "controller/rest.Server.") {
				return false
			}
			return strings.HasPrefix(o.Kind, "unlock-held") || strings.HasPrefix(o.Kind, "lock-free") || strings.HasPrefix(o.Kind, "lock-balance")
		},
		scripted: true,
		pkg: "controller/rest",
		gen: func(o *Obligation, vals map[string]string) (string, bool) {
			h := strings.TrimPrefix(o.Fn, "controller/rest.Server.")
			rt, ok := ctlRoutes[h]
			if !ok {
				return "", false
			}
			src := fmt.Sprintf(`package rest

import (
	"net/http"
	"net/http/httptest"
	"strings"
	"testing"
	"time"

	"github.com/openebs/jiva/controller"
)

func TestZZReplay(t *testing.T) {
	c := controller.NewController(controller.WithName("vol"), controller.WithRF(1))
	router := NewRouter(NewServer(c))
	done := make(chan int, 1)
	go func() {
		// malformed (empty) body: the handler must answer with an error status and release the lock
		req := httptest.NewRequest(%q, %q, strings.NewReader(%q))
		rec := httptest.NewRecorder()
		router.ServeHTTP(rec, req)
		done <- rec.Code
	}()
	select {
	case code := <-done:
		t.Logf("%s %s -> HTTP %%d", code)
	case <-time.After(3 * time.Second):
		t.Fatalf("REPLAY-REPRODUCED: the request did not return within 3s (handler blocked while holding / re-acquiring the controller lock)")
	}
	if !c.TryLock() {
		t.Fatalf("REPLAY-REPRODUCED: the controller lock is still held after the request returned")
	}
	c.Unlock()
	// a second, well-formed request must still be served
	rec := httptest.NewRecorder()
	router.ServeHTTP(rec, httptest.NewRequest("GET", "/v1/volumes", nil))
	if rec.Code != http.StatusOK {
		t.Fatalf("REPLAY-REPRODUCED: follow-up request failed with HTTP %%d", rec.Code)
	}
	t.Log("REPLAY-NOT-REPRODUCED")
}
`, rt[0], rt[1], rt[2], rt[0], rt[1])
			return src, true
		},
	})
}

func init() {
	// replica REST create with a negative size: Server.Create hands the size to replica.New, construct allocates the
	// block map with it (scripted: the request goes through the real router; a handler panic is caught and reported)
	replayTemplates = append(replayTemplates, replayTemplate{
		match: func(o *Obligation) bool {
			return o.Fn == "replica.Server.Create" && strings.HasPrefix(o.Kind, "pre:replica.New")
		},
		scripted: true,
		pkg:      "replica/rest",
		tags:     "debug",
		gen: func(o *Obligation, vals map[string]string) (string, bool) {
			return `package rest

import (
	"net/http/httptest"
	"os"
	"strings"
	"testing"

	"github.com/openebs/jiva/replica"
)

func TestZZReplay(t *testing.T) {
	dir, err := os.MkdirTemp("", "zz-replay-create")
	if err != nil {
		t.Fatal(err)
	}
	defer os.RemoveAll(dir)
	s := replica.NewServer("127.0.0.1:9502", dir, 4096, "")
	h := NewRouter(NewServer(s))
	code, panicked := func() (code int, p interface{}) {
		defer func() { p = recover() }()
		req := httptest.NewRequest("POST", "/v1/replicas/1?action=create", strings.NewReader("{\"size\":\"-4096\"}"))
		req.Header.Set("Content-Type", "application/json")
		rw := httptest.NewRecorder()
		h.ServeHTTP(rw, req)
		return rw.Code, nil
	}()
	t.Logf("POST ?action=create size=-4096 -> HTTP %d, panic: %v", code, panicked)
	if panicked != nil {
		t.Fatalf("REPLAY-REPRODUCED: the create handler panicked: %v", panicked)
	}
	if code < 400 {
		t.Fatalf("REPLAY-REPRODUCED: a negative size was accepted (HTTP %d)", code)
	}
	t.Log("REPLAY-NOT-REPRODUCED")
}
`, true
		},
	})
}
