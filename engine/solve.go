package main

// Discharging obligations: SMT emission, solver racing, result parsing.

import (
	"bytes"
	"context"
	"fmt"
	"os"
	"os/exec"
	"path/filepath"
	"strings"
	"sync"
	"time"
)

type solverSpec struct {
	name string
	argv func(file string, timeoutS int) []string
}

var solvers = []solverSpec{
	{"z3-5.1.0", func(f string, t int) []string { return []string{"z3-new", fmt.Sprintf("-T:%d", t), f} }},
	{"z3-4.8.12", func(f string, t int) []string { return []string{"z3", fmt.Sprintf("-T:%d", t), f} }},
	{"cvc5-1.0.3", func(f string, t int) []string {
		return []string{"cvc5", "--incremental", fmt.Sprintf("--tlimit=%d", t*1000), f}
	}},
}

type solveCfg struct {
	outDir   string
	timeoutS int
	agree    int // number of solver builds that must say unsat (thorough: 2)
	workers  int
	lemmas   []*Lemma
	known    map[string]bool // obligation keys listed as known findings: expected to fail, short time-out
	siteVacuity bool         // thorough: also ask whether the hypotheses of each proved obligation are satisfiable
	retried     bool         // this is the second attempt (longer time-out) of an obligation whose solvers all timed out
}

func runSolver(sp solverSpec, file string, timeoutS int) (verdict, output string, ms int64) {
	argv := sp.argv(file, timeoutS)
	ctx, cancel := context.WithTimeout(context.Background(), time.Duration(timeoutS+5)*time.Second)
	defer cancel()
	cmd := exec.CommandContext(ctx, argv[0], argv[1:]...)
	var buf bytes.Buffer
	cmd.Stdout = &buf
	cmd.Stderr = &buf
	t0 := time.Now()
	_ = cmd.Run()
	ms = time.Since(t0).Milliseconds()
	out := buf.String()
	for _, ln := range strings.Split(out, "\n") {
		ln = strings.TrimSpace(ln)
		if strings.HasPrefix(ln, "(error") && (strings.Contains(ln, "open file") || strings.Contains(ln, "Couldn't open")) {
			// the racing solver that answered first already removed the query file
			return "error", out, ms
		}
		if strings.HasPrefix(ln, "(error") && !strings.Contains(ln, "model is not available") {
			fmt.Fprintf(os.Stderr, "solver error (%s) on %s: %s\n", sp.name, file, ln)
			return "error", out, ms
		}
		switch ln {
		case "unsat", "sat", "unknown":
			return ln, out, ms
		}
	}
	if strings.Contains(out, "timeout") || ctx.Err() != nil {
		return "timeout", out, ms
	}
	return "error", out, ms
}

func (o *Obligation) fileName() string {
	n := strings.NewReplacer("/", "_", ":", "_", "#", "_", "@", "_", "*", "_", " ", "_").Replace(o.Name)
	if len(n) > 150 {
		n = n[:150]
	}
	return n
}

func solveAll(obls []*Obligation, cfg solveCfg) {
	os.MkdirAll(cfg.outDir, 0o755)
	var wg sync.WaitGroup
	ch := make(chan *Obligation)
	seen := map[string]int{}
	for i := 0; i < cfg.workers; i++ {
		wg.Add(1)
		go func() {
			defer wg.Done()
			for o := range ch {
				solveOne(o, cfg)
				if cfg.siteVacuity && !o.ExpectSat && o.Status == "proved" && o.Solver != "simplifier" {
					probeSite(o, cfg)
				}
			}
		}()
	}
	for _, o := range obls {
		// trivial cases
		if !o.ExpectSat {
			if o.Goal.IsTrue() {
				o.Status, o.Solver = "proved", "simplifier"
				continue
			}
		}
		fn := o.fileName()
		seen[fn]++
		if seen[fn] > 1 {
			fn = fmt.Sprintf("%s_%d", fn, seen[fn])
		}
		o.SMT = filepath.Join(cfg.outDir, fn+".smt2")
		ch <- o
	}
	close(ch)
	wg.Wait()
}

func solveOne(o *Obligation, cfg solveCfg) {
	// conjunctive goals are discharged conjunct by conjunct (earlier conjuncts become hypotheses)
	if parts := splitGoal(o.Goal); !o.ExpectSat && len(parts) > 1 {
		var names []string
		var total int64
		hyps := append([]*Term(nil), o.Hyps...)
		o.Goal = And(parts...)
		for i, g := range parts {
			sub := &Obligation{Name: o.Name, Key: o.Key, Fn: o.Fn, Kind: o.Kind, Hyps: hyps, Goal: g, Pos: o.Pos, Clause: o.Clause, Descr: fmt.Sprintf("%s [conjunct %d/%d]", o.Descr, i+1, len(o.Goal.Args)), Obs: o.Obs}
			sub.SMT = strings.TrimSuffix(o.SMT, ".smt2") + fmt.Sprintf(".c%d.smt2", i+1)
			if g.IsTrue() {
				continue
			}
			solveOne(sub, cfg)
			total += sub.Ms
			if sub.Status != "proved" {
				o.Vals = sub.Vals
				o.Status, o.Solver, o.Model, o.Output, o.Ms = sub.Status, sub.Solver, sub.Model, fmt.Sprintf("conjunct %d/%d: %s\n%s", i+1, len(o.Goal.Args), g.String(), sub.Output), total
				o.SMT = sub.SMT
				return
			}
			if os.Getenv("JV_KEEP_SUB") == "" {
				os.Remove(sub.SMT)
			} else {
				fmt.Fprintf(os.Stderr, "sub %s %dms %s\n", sub.SMT, sub.Ms, sub.Solver)
			}
			names = append(names, sub.Solver)
			hyps = append(hyps, g)
		}
		o.Status, o.Ms = "proved", total
		o.Solver = uniqJoin(names)
		return
	}
	hyps := o.Hyps
	if !o.ExpectSat {
		// a goal that is literally one of the hypotheses (after the same conjunct splitting) needs no solver: quantified
		// facts carried unchanged across a statement are otherwise a matching problem the solvers may fail at
		gs := alphaKey(o.Goal)
		for _, h := range o.Hyps {
			for _, part := range splitGoal(h) {
				if part == o.Goal || alphaKey(part) == gs {
					o.Status, o.Solver = "proved", "simplifier"
					return
				}
			}
		}
		hyps = append(append([]*Term(nil), lemmasFor(cfg.lemmas, o)...), hyps...)
	}
	src := EmitSMT(hyps, o.Goal, true)
	hdr := fmt.Sprintf("; obligation %s\n; pos %s\n; clause %s\n; %s\n", o.Name, o.Pos, o.Clause, o.Descr)
	if err := os.WriteFile(o.SMT, []byte(hdr+src), 0o644); err != nil {
		o.Status, o.Output = "unknown", err.Error()
		return
	}
	if o.ExpectSat {
		// cover / canary: anything but unsat is fine; short time-out
		v, out, ms := runSolver(solvers[0], o.SMT, 3)
		o.Ms, o.Solver = ms, solvers[0].name
		if v == "unsat" {
			o.Status = "vacuous"
			o.Output = out
		} else {
			o.Status = "covered"
			os.Remove(o.SMT)
		}
		return
	}
	type res struct {
		sp      solverSpec
		v, out  string
		ms      int64
	}
	ch := make(chan res, len(solvers))
	tmo := cfg.timeoutS
	if cfg.known[o.Key] {
		tmo = 2
	}
	launch := func(sp solverSpec) {
		go func() {
			v, out, ms := runSolver(sp, o.SMT, tmo)
			ch <- res{sp, v, out, ms}
		}()
	}
	t0 := time.Now()
	launch(solvers[0])
	launched := 1
	pending := 1
	unsat := 0
	var names []string
	timer := time.NewTimer(1500 * time.Millisecond)
	if cfg.agree > 1 {
		timer.Reset(0)
	}
	defer timer.Stop()
	for pending > 0 {
		select {
		case <-timer.C:
			for launched < len(solvers) {
				launch(solvers[launched])
				launched++
				pending++
			}
		case r := <-ch:
			pending--
			switch r.v {
			case "unsat":
				unsat++
				names = append(names, r.sp.name)
			case "sat":
				o.Model = r.out
				o.Status = "refuted"
				o.Solver = r.sp.name
				o.Ms = time.Since(t0).Milliseconds()
				o.Output = r.out
				o.Vals = modelValues(o, hyps)
				return
			default:
				o.Output += fmt.Sprintf("[%s: %s] %s\n", r.sp.name, r.v, firstLines(r.out, 3))
				if launched < len(solvers) {
					// first solver gave up early: start the others now
					for launched < len(solvers) {
						launch(solvers[launched])
						launched++
						pending++
					}
				}
			}
			if unsat >= cfg.agree {
				pending = 0
			}
		}
	}
	o.Ms = time.Since(t0).Milliseconds()
	if unsat >= cfg.agree {
		o.Status = "proved"
		o.Solver = strings.Join(names, "+")
		return
	}
	if unsat > 0 {
		o.Status = "proved"
		o.Solver = strings.Join(names, "+") + " (single solver; others undecided)"
		return
	}
	o.Status = "unknown"
	// every solver ran out of (wall-clock) time: on a loaded machine that says little; one retry with three times the
	// budget before the obligation is reported as undecided. Solvers that answered `unknown` are not asked again.
	if !cfg.known[o.Key] && !cfg.retried && strings.Contains(o.Output, "timeout") {
		c2 := cfg
		c2.retried = true
		c2.timeoutS = 3 * tmo
		first := o.Output
		o.Output = ""
		if _, err := os.Stat(o.SMT); err != nil {
			os.WriteFile(o.SMT, []byte(hdr+src), 0o644)
		}
		solveOne(o, c2)
		if o.Status != "proved" && o.Status != "refuted" {
			o.Output = first + "retry with " + fmt.Sprint(c2.timeoutS) + "s: " + o.Output
		}
	}
}

func firstLines(s string, n int) string {
	ls := strings.Split(s, "\n")
	if len(ls) > n {
		ls = ls[:n]
	}
	return strings.Join(ls, " | ")
}

func uniqJoin(xs []string) string {
	seen := map[string]bool{}
	var out []string
	for _, x := range xs {
		for _, y := range strings.Split(x, "+") {
			if !seen[y] {
				seen[y] = true
				out = append(out, y)
			}
		}
	}
	return strings.Join(out, "+")
}

// splitGoal distributes conjunctions out of implications and universal quantifiers:
// A => (B && C)  ~>  A => B, A => C ;  forall x. (B && C)  ~>  forall x. B, forall x. C
func splitGoal(g *Term) []*Term {
	switch g.Op {
	case "and":
		var out []*Term
		for _, a := range g.Args {
			out = append(out, splitGoal(a)...)
		}
		return out
	case "=>":
		var out []*Term
		for _, c := range splitGoal(g.Args[1]) {
			out = append(out, Implies(g.Args[0], c))
		}
		return out
	case "forall":
		parts := splitGoal(g.Args[0])
		if len(parts) <= 1 {
			return []*Term{g}
		}
		var out []*Term
		for _, c := range parts {
			out = append(out, Forall(g.Bound, c))
		}
		return out
	}
	return []*Term{g}
}

// probeSite (thorough tier): are the hypotheses under which o was proved satisfiable at all? `unsat` means the
// obligation was discharged vacuously at this site (dead code, or contradictory assumptions/contracts).
func probeSite(o *Obligation, cfg solveCfg) {
	f := strings.TrimSuffix(o.SMT, ".smt2") + ".site.smt2"
	src := EmitSMT(o.Hyps, False, true)
	if err := os.WriteFile(f, []byte("; site probe for "+o.Name+"\n"+src), 0o644); err != nil {
		return
	}
	v, _, _ := runSolver(solvers[0], f, 5)
	if v == "unsat" {
		o.VacuousSite = true
	}
	os.Remove(f)
}
