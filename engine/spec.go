package main

// Contract language: tokenizer, expression parser, contract-file loader.

import (
	"fmt"
	"os"
	"strings"
	"unicode"
)

type SExpr struct {
	Kind string // int str bool nil id sel idx slice call un bin quant cond upd
	Name string // id name, selector field, call callee, operator, quantifier kind
	Args []*SExpr
	Vars []SVar // quantifier variables
	Src  string
}

type SVar struct {
	Name string
	Type string // Go type syntax
}

func (e *SExpr) String() string {
	if e == nil {
		return "<nil>"
	}
	switch e.Kind {
	case "int", "bool", "id":
		return e.Name
	case "nil":
		return "nil"
	case "str":
		return fmt.Sprintf("%q", e.Name)
	case "sel":
		return e.Args[0].String() + "." + e.Name
	case "idx":
		return e.Args[0].String() + "[" + e.Args[1].String() + "]"
	case "slice":
		return e.Args[0].String() + "[" + e.Args[1].String() + ":" + e.Args[2].String() + "]"
	case "upd":
		return e.Args[0].String() + "[" + e.Args[1].String() + " := " + e.Args[2].String() + "]"
	case "call":
		var as []string
		for _, a := range e.Args {
			as = append(as, a.String())
		}
		return e.Name + "(" + strings.Join(as, ", ") + ")"
	case "un":
		return e.Name + e.Args[0].String()
	case "bin":
		return "(" + e.Args[0].String() + " " + e.Name + " " + e.Args[1].String() + ")"
	case "cond":
		return "(" + e.Args[0].String() + " ? " + e.Args[1].String() + " : " + e.Args[2].String() + ")"
	case "let":
		return "(let " + e.Name + " be " + e.Args[0].String() + " :: " + e.Args[1].String() + ")"
	case "quant":
		var vs []string
		for _, v := range e.Vars {
			vs = append(vs, v.Name+" "+v.Type)
		}
		return "(" + e.Name + " " + strings.Join(vs, ", ") + " :: " + e.Args[0].String() + ")"
	}
	return "?" + e.Kind
}

type tok struct {
	k string // id int str op eof
	v string
}

func lexSpec(s string) ([]tok, error) {
	var out []tok
	i := 0
	for i < len(s) {
		c := s[i]
		switch {
		case c == ' ' || c == '\t' || c == '\n':
			i++
		case unicode.IsLetter(rune(c)) || c == '_' || c == '$':
			j := i + 1
			for j < len(s) && (unicode.IsLetter(rune(s[j])) || unicode.IsDigit(rune(s[j])) || s[j] == '_' || s[j] == '$' || s[j] == '#') {
				j++
			}
			out = append(out, tok{"id", s[i:j]})
			i = j
		case c >= '0' && c <= '9':
			j := i + 1
			for j < len(s) && (s[j] >= '0' && s[j] <= '9' || s[j] == 'x' || (s[j] >= 'a' && s[j] <= 'f') || (s[j] >= 'A' && s[j] <= 'F')) {
				j++
			}
			out = append(out, tok{"int", s[i:j]})
			i = j
		case c == '"':
			j := i + 1
			for j < len(s) && s[j] != '"' {
				j++
			}
			if j >= len(s) {
				return nil, fmt.Errorf("unterminated string in %q", s)
			}
			out = append(out, tok{"str", s[i+1 : j]})
			i = j + 1
		default:
			ops := []string{"<==>", "==>", "...", "==", "!=", "<=", ">=", "&&", "||", "::", ":=", "!", "<", ">", "+", "-", "*", "/", "%", "(", ")", "[", "]", ",", ".", "?", ":", "{", "}", "&"}
			found := false
			for _, op := range ops {
				if strings.HasPrefix(s[i:], op) {
					out = append(out, tok{"op", op})
					i += len(op)
					found = true
					break
				}
			}
			if !found {
				return nil, fmt.Errorf("bad character %q in spec %q", c, s)
			}
		}
	}
	out = append(out, tok{"eof", ""})
	return out, nil
}

type sparser struct {
	toks []tok
	p    int
	src  string
}

func (p *sparser) peek() tok { return p.toks[p.p] }
func (p *sparser) next() tok { t := p.toks[p.p]; p.p++; return t }
func (p *sparser) isOp(v string) bool {
	t := p.peek()
	return t.k == "op" && t.v == v
}
func (p *sparser) isID(v string) bool {
	t := p.peek()
	return t.k == "id" && t.v == v
}
func (p *sparser) expect(v string) {
	t := p.next()
	if t.v != v {
		panic(fmt.Sprintf("spec parse: expected %q got %q in %q", v, t.v, p.src))
	}
}

func ParseSpecExpr(s string) (e *SExpr, err error) {
	toks, err := lexSpec(s)
	if err != nil {
		return nil, err
	}
	p := &sparser{toks: toks, src: s}
	defer func() {
		if r := recover(); r != nil {
			err = fmt.Errorf("%v", r)
		}
	}()
	e = p.expr()
	if p.peek().k != "eof" {
		return nil, fmt.Errorf("spec parse: trailing %q in %q", p.peek().v, s)
	}
	e.Src = s
	return e, nil
}

func (p *sparser) expr() *SExpr { return p.iff() }

func (p *sparser) iff() *SExpr {
	l := p.impl()
	for p.isOp("<==>") {
		p.next()
		r := p.impl()
		l = &SExpr{Kind: "bin", Name: "<==>", Args: []*SExpr{l, r}}
	}
	return l
}

func (p *sparser) impl() *SExpr {
	l := p.cond()
	if p.isOp("==>") {
		p.next()
		r := p.impl()
		return &SExpr{Kind: "bin", Name: "==>", Args: []*SExpr{l, r}}
	}
	return l
}

func (p *sparser) cond() *SExpr {
	c := p.or()
	if p.isOp("?") {
		p.next()
		a := p.cond()
		p.expect(":")
		b := p.cond()
		return &SExpr{Kind: "cond", Args: []*SExpr{c, a, b}}
	}
	return c
}

func (p *sparser) or() *SExpr {
	l := p.and()
	for p.isOp("||") {
		p.next()
		r := p.and()
		l = &SExpr{Kind: "bin", Name: "||", Args: []*SExpr{l, r}}
	}
	return l
}

func (p *sparser) and() *SExpr {
	l := p.cmp()
	for p.isOp("&&") {
		p.next()
		r := p.cmp()
		l = &SExpr{Kind: "bin", Name: "&&", Args: []*SExpr{l, r}}
	}
	return l
}

func (p *sparser) cmp() *SExpr {
	l := p.addE()
	var lastR *SExpr // right operand of the previous relational comparison (for a <= b < c)
	for {
		t := p.peek()
		if t.k == "op" && isCmpOp(t.v) {
			p.next()
			r := p.addE()
			rel := t.v != "==" && t.v != "!="
			if lastR != nil && rel {
				l = &SExpr{Kind: "bin", Name: "&&", Args: []*SExpr{l, {Kind: "bin", Name: t.v, Args: []*SExpr{lastR, r}}}}
			} else {
				l = &SExpr{Kind: "bin", Name: t.v, Args: []*SExpr{l, r}}
			}
			if rel {
				lastR = r
			} else {
				lastR = nil
			}
			continue
		}
		if t.k == "id" && t.v == "in" {
			p.next()
			r := p.addE()
			l = &SExpr{Kind: "bin", Name: "in", Args: []*SExpr{l, r}}
			lastR = nil
			continue
		}
		return l
	}
}

func isCmpOp(s string) bool {
	switch s {
	case "==", "!=", "<", "<=", ">", ">=":
		return true
	}
	return false
}

func (p *sparser) addE() *SExpr {
	l := p.mulE()
	for p.isOp("+") || p.isOp("-") {
		op := p.next().v
		r := p.mulE()
		l = &SExpr{Kind: "bin", Name: op, Args: []*SExpr{l, r}}
	}
	return l
}

func (p *sparser) mulE() *SExpr {
	l := p.unary()
	for p.isOp("*") || p.isOp("/") || p.isOp("%") {
		op := p.next().v
		r := p.unary()
		l = &SExpr{Kind: "bin", Name: op, Args: []*SExpr{l, r}}
	}
	return l
}

func (p *sparser) unary() *SExpr {
	if p.isOp("!") || p.isOp("-") {
		op := p.next().v
		x := p.unary()
		return &SExpr{Kind: "un", Name: op, Args: []*SExpr{x}}
	}
	return p.postfix()
}

func (p *sparser) postfix() *SExpr {
	x := p.primary()
	for {
		switch {
		case p.isOp("."):
			p.next()
			t := p.next()
			if t.k != "id" {
				panic("spec parse: selector expects identifier in " + p.src)
			}
			x = &SExpr{Kind: "sel", Name: t.v, Args: []*SExpr{x}}
		case p.isOp("["):
			p.next()
			if p.isOp(":") {
				p.next()
				hi := p.expr()
				p.expect("]")
				x = &SExpr{Kind: "slice", Args: []*SExpr{x, {Kind: "int", Name: "0"}, hi}}
				continue
			}
			i := p.expr()
			if p.isOp(":=") {
				p.next()
				v := p.expr()
				p.expect("]")
				x = &SExpr{Kind: "upd", Args: []*SExpr{x, i, v}}
				continue
			}
			if p.isOp(":") {
				p.next()
				var hi *SExpr
				if p.isOp("]") {
					hi = &SExpr{Kind: "call", Name: "len", Args: []*SExpr{x}}
				} else {
					hi = p.expr()
				}
				p.expect("]")
				x = &SExpr{Kind: "slice", Args: []*SExpr{x, i, hi}}
				continue
			}
			p.expect("]")
			x = &SExpr{Kind: "idx", Args: []*SExpr{x, i}}
		case p.isOp("("):
			// call: callee must be id or qualified sel
			name := ""
			if x.Kind == "id" {
				name = x.Name
			} else if x.Kind == "sel" && x.Args[0].Kind == "id" {
				name = x.Args[0].Name + "." + x.Name
			} else {
				panic("spec parse: call of non-identifier in " + p.src)
			}
			p.next()
			var args []*SExpr
			for !p.isOp(")") {
				args = append(args, p.expr())
				if p.isOp(",") {
					p.next()
				}
			}
			p.expect(")")
			x = &SExpr{Kind: "call", Name: name, Args: args}
		default:
			return x
		}
	}
}

func (p *sparser) primary() *SExpr {
	t := p.next()
	switch t.k {
	case "int":
		return &SExpr{Kind: "int", Name: t.v}
	case "str":
		return &SExpr{Kind: "str", Name: t.v}
	case "id":
		switch t.v {
		case "true", "false":
			return &SExpr{Kind: "bool", Name: t.v}
		case "nil":
			return &SExpr{Kind: "nil"}
		case "let":
			// let x = e :: body
			n := p.next()
			if n.k != "id" {
				panic("spec parse: let expects a name in " + p.src)
			}
			if t2 := p.next(); t2.k != "id" || t2.v != "be" {
				panic("spec parse: want `let x be e :: body` in " + p.src)
			}
			val := p.cond()
			p.expect("::")
			body := p.expr()
			return &SExpr{Kind: "let", Name: n.v, Args: []*SExpr{val, body}}
		case "forall", "exists":
			var vars []SVar
			for {
				n := p.next()
				if n.k != "id" {
					panic("spec parse: quantifier variable expected in " + p.src)
				}
				ty := p.typeStr()
				vars = append(vars, SVar{n.v, ty})
				if p.isOp(",") {
					p.next()
					continue
				}
				break
			}
			p.expect("::")
			body := p.expr()
			return &SExpr{Kind: "quant", Name: t.v, Vars: vars, Args: []*SExpr{body}}
		}
		return &SExpr{Kind: "id", Name: t.v}
	case "op":
		if t.v == "(" {
			e := p.expr()
			p.expect(")")
			return e
		}
	}
	panic(fmt.Sprintf("spec parse: unexpected %q in %q", t.v, p.src))
}

// typeStr consumes a Go type up to ',' or '::' or ')' at depth 0.
func (p *sparser) typeStr() string {
	var b strings.Builder
	depth := 0
	for {
		t := p.peek()
		if t.k == "eof" {
			break
		}
		if depth == 0 && t.k == "op" && (t.v == "," || t.v == "::" || t.v == ")" || t.v == "{") {
			break
		}
		if t.k == "op" && (t.v == "[" || t.v == "(") {
			depth++
		}
		if t.k == "op" && (t.v == "]" || t.v == ")") {
			depth--
		}
		p.next()
		b.WriteString(t.v)
	}
	return b.String()
}

// ---------------------------------------------------------------------------
// Contract files.

type Clause struct {
	Kind  string // requires ensures invariant callpre assert lockinv axiom lemma
	Name  string // optional @name
	Props []string
	Expr  *SExpr
	Text  string
	File  string
	Line  int
	// callpre
	Callee string
	Params []string
}

type ModItem struct {
	Expr *SExpr // e.g. c.ReadOnly ; c.backend.* => sel with Name "*" ; ghost id
}

type FuncContract struct {
	Key      string // pkgpath.Recv.Name or pkgpath.Name
	Header   string
	Props    []string
	Requires []*Clause
	Ensures  []*Clause
	Modifies []*SExpr
	HasMod   bool
	LoopInv  map[int][]*Clause
	LabelInv map[string][]*Clause
	CallPre  map[string][]*Clause
	Options  map[string]string
	Assumes  map[string][]*Clause // label -> assumptions made when the label is reached (listed in the evidence)
	Sets     []*Clause            // `sets g := expr`: ghost assignments at return (Name = ghost variable)
	Devirt   map[string]string // "Iface.Method" or method name -> concrete function key
	Params   []SVar            // for extern / interface methods / ghost: declared params
	Results  []SVar
	RecvName string
	File     string
	Line     int
	Trusted  bool // extern or interface method: assumed, never verified
	used     bool
}

type GhostFunc struct {
	Name    string
	Params  []SVar
	Result  string
	Body    *SExpr // nil for uninterpreted
	IsPred  bool   // macro
	PkgPath string
	File    string
	Line    int
	decl    *FuncDecl
	state   int // 0 new, 1 in progress, 2 done
}

type LockInv struct {
	RecvName string
	RecvType string // e.g. *Controller
	Mutex    string // field path, e.g. RWMutex
	Inv      []*Clause
	Protects []string // field keys "Type.field" or "Type.*"
	PkgPath  string
}

type GhostVar struct {
	Name    string
	Type    string
	PkgPath string
}

type ContractSet struct {
	Funcs    map[string]*FuncContract
	Ghosts   map[string]*GhostFunc // by name (package-qualified lookups fall back to bare)
	Locks    []*LockInv
	Vars     map[string]*GhostVar
	Axioms   []*Clause
	AxiomPkg map[*Clause]string
	Lemmas   []*Clause
	Ifaces   map[string]*FuncContract // "pkgpath.Iface.Method"
	Files    []string
	Scan     []string // assume/trusted markers found
}

func NewContractSet() *ContractSet {
	return &ContractSet{Funcs: map[string]*FuncContract{}, Ghosts: map[string]*GhostFunc{}, Vars: map[string]*GhostVar{}, Ifaces: map[string]*FuncContract{}, AxiomPkg: map[*Clause]string{}}
}

var clauseKeywords = map[string]bool{"func": true, "ghost": true, "pred": true, "axiom": true, "lemma": true, "lockinv": true, "protects": true,
	"interface": true, "method": true, "props": true, "requires": true, "modifies": true, "ensures": true, "loop": true, "label": true,
	"callpre": true, "option": true, "extern": true, "devirt": true, "end": true, "assume": true, "sets": true}

// LoadContracts parses every //@ line of file. pkgPath is the Go import path the
// contracts are about ("" for externals: keys are then taken verbatim).
func (cs *ContractSet) LoadFile(file, pkgPath string) error {
	data, err := os.ReadFile(file)
	if err != nil {
		return err
	}
	cs.Files = append(cs.Files, file)
	type rawClause struct {
		text string
		line int
	}
	var raws []rawClause
	for i, ln := range strings.Split(string(data), "\n") {
		t := strings.TrimSpace(ln)
		if !strings.HasPrefix(t, "//@") {
			continue
		}
		t = strings.TrimSpace(t[3:])
		if t == "" || strings.HasPrefix(t, "#") {
			continue
		}
		// strip trailing comment
		if k := strings.Index(t, " // "); k >= 0 {
			t = strings.TrimSpace(t[:k])
		}
		first := t
		if k := strings.IndexAny(t, " \t("); k >= 0 {
			first = t[:k]
		}
		if clauseKeywords[first] {
			raws = append(raws, rawClause{t, i + 1})
		} else if len(raws) > 0 {
			raws[len(raws)-1].text += " " + t
		} else {
			return fmt.Errorf("%s:%d: continuation without clause", file, i+1)
		}
	}
	var cur *FuncContract
	var curIface string
	for _, rc := range raws {
		t := rc.text
		kw := t
		rest := ""
		if k := strings.IndexAny(t, " \t"); k >= 0 {
			kw, rest = t[:k], strings.TrimSpace(t[k+1:])
		}
		fail := func(f string, a ...interface{}) error {
			return fmt.Errorf("%s:%d: %s", file, rc.line, fmt.Sprintf(f, a...))
		}
		mkClause := func(kind, txt string) (*Clause, error) {
			c := &Clause{Kind: kind, File: file, Line: rc.line}
			txt = strings.TrimSpace(txt)
			if strings.HasPrefix(txt, "@") {
				k := strings.IndexAny(txt, " \t")
				if k < 0 {
					return nil, fail("clause with only a name")
				}
				c.Name = txt[1:k]
				txt = strings.TrimSpace(txt[k:])
			}
			if strings.HasPrefix(txt, "[") && !strings.HasPrefix(txt, "[]") {
				k := strings.Index(txt, "]")
				for _, p := range strings.FieldsFunc(txt[1:k], func(r rune) bool { return r == ',' || r == ' ' }) {
					c.Props = append(c.Props, p)
				}
				txt = strings.TrimSpace(txt[k+1:])
			}
			e, err := ParseSpecExpr(txt)
			if err != nil {
				return nil, fail("%v", err)
			}
			c.Expr = e
			c.Text = txt
			return c, nil
		}
		switch kw {
		case "func", "extern", "method":
			hdr := rest
			if kw == "extern" {
				hdr = strings.TrimSpace(strings.TrimPrefix(rest, "func"))
			}
			fc, err := parseFuncHeader(hdr, pkgPath)
			if err != nil {
				return fail("%v", err)
			}
			fc.File, fc.Line = file, rc.line
			if kw == "extern" {
				fc.Trusted = true
			}
			if kw == "method" {
				if curIface == "" {
					return fail("method outside interface block")
				}
				fc.Trusted = true
				fc.Key = curIface + "." + fc.Key[strings.LastIndex(fc.Key, ".")+1:]
				fc.RecvName = "this"
				cs.Ifaces[fc.Key] = fc
			} else {
				curIface = ""
				if _, dup := cs.Funcs[fc.Key]; dup {
					return fail("duplicate contract for %s", fc.Key)
				}
				cs.Funcs[fc.Key] = fc
			}
			cur = fc
		case "interface":
			curIface = qualify(rest, pkgPath)
			cur = nil
		case "ghost", "pred":
			cur = nil
			g, gv, err := parseGhost(kw, rest, pkgPath)
			if err != nil {
				return fail("%v", err)
			}
			if gv != nil {
				cs.Vars[gv.Name] = gv
			} else {
				g.File, g.Line = file, rc.line
				if _, dup := cs.Ghosts[g.Name]; dup {
					return fail("duplicate ghost %s", g.Name)
				}
				cs.Ghosts[g.Name] = g
			}
		case "axiom", "lemma":
			cur = nil
			k := strings.Index(rest, ":")
			if k < 0 {
				return fail("axiom needs name:")
			}
			c, err := mkClause(kw, rest[k+1:])
			if err != nil {
				return err
			}
			c.Name = strings.TrimSpace(rest[:k])
			if kw == "axiom" {
				cs.Axioms = append(cs.Axioms, c)
				cs.Scan = append(cs.Scan, fmt.Sprintf("axiom %s (%s:%d): %s", c.Name, file, rc.line, c.Text))
			} else {
				cs.Lemmas = append(cs.Lemmas, c)
			}
			cs.AxiomPkg[c] = pkgPath
		case "lockinv":
			// lockinv (c *Controller) RWMutex: expr
			cur = nil
			k := strings.Index(rest, ":")
			hdr, body := rest[:k], rest[k+1:]
			li, err := parseLockHeader(hdr, pkgPath)
			if err != nil {
				return fail("%v", err)
			}
			c, err := mkClause("lockinv", body)
			if err != nil {
				return err
			}
			found := false
			for _, l := range cs.Locks {
				if l.RecvType == li.RecvType && l.Mutex == li.Mutex && l.PkgPath == pkgPath {
					l.Inv = append(l.Inv, c)
					found = true
				}
			}
			if !found {
				li.Inv = []*Clause{c}
				cs.Locks = append(cs.Locks, li)
			}
		case "protects":
			cur = nil
			k := strings.Index(rest, ":")
			li, err := parseLockHeader(rest[:k], pkgPath)
			if err != nil {
				return fail("%v", err)
			}
			var items []string
			for _, it := range strings.Split(rest[k+1:], ",") {
				items = append(items, strings.TrimSpace(it))
			}
			found := false
			for _, l := range cs.Locks {
				if l.RecvType == li.RecvType && l.Mutex == li.Mutex && l.PkgPath == pkgPath {
					l.Protects = append(l.Protects, items...)
					found = true
				}
			}
			if !found {
				li.Protects = items
				cs.Locks = append(cs.Locks, li)
			}
		case "end":
			cur = nil
			curIface = ""
		default:
			if cur == nil {
				return fail("clause %q outside a func block", kw)
			}
			switch kw {
			case "props":
				cur.Props = strings.Fields(rest)
			case "requires":
				c, err := mkClause("requires", rest)
				if err != nil {
					return err
				}
				cur.Requires = append(cur.Requires, c)
			case "ensures":
				c, err := mkClause("ensures", rest)
				if err != nil {
					return err
				}
				cur.Ensures = append(cur.Ensures, c)
			case "modifies":
				cur.HasMod = true
				if strings.TrimSpace(rest) == "nothing" {
					break
				}
				for _, it := range splitTop(rest, ',') {
					it = strings.TrimSpace(it)
					e, err := ParseSpecExpr(strings.ReplaceAll(it, ".*", ".STAR"))
					if err != nil {
						return fail("%v", err)
					}
					cur.Modifies = append(cur.Modifies, e)
				}
			case "loop":
				var n int
				var kind string
				k := 0
				if _, err := fmt.Sscanf(rest, "%d %s", &n, &kind); err != nil || kind != "invariant" {
					return fail("loop clause: want `loop N invariant expr`")
				}
				k = strings.Index(rest, "invariant") + len("invariant")
				c, err := mkClause("invariant", rest[k:])
				if err != nil {
					return err
				}
				cur.LoopInv[n] = append(cur.LoopInv[n], c)
			case "label":
				f := strings.Fields(rest)
				if len(f) < 3 || f[1] != "invariant" {
					return fail("label clause: want `label L invariant expr`")
				}
				k := strings.Index(rest, "invariant") + len("invariant")
				c, err := mkClause("invariant", rest[k:])
				if err != nil {
					return err
				}
				cur.LabelInv[f[0]] = append(cur.LabelInv[f[0]], c)
			case "callpre":
				// callpre Callee(p1, p2): expr
				k := strings.Index(rest, ":")
				hdr := strings.TrimSpace(rest[:k])
				op := strings.Index(hdr, "(")
				callee := strings.TrimSpace(hdr[:op])
				var ps []string
				for _, x := range strings.Split(strings.TrimSuffix(hdr[op+1:], ")"), ",") {
					if x = strings.TrimSpace(x); x != "" {
						ps = append(ps, x)
					}
				}
				c, err := mkClause("callpre", rest[k+1:])
				if err != nil {
					return err
				}
				c.Callee, c.Params = callee, ps
				cur.CallPre[callee] = append(cur.CallPre[callee], c)
			case "option":
				f := strings.Fields(rest)
				if len(f) == 1 {
					cur.Options[f[0]] = "true"
				} else if len(f) >= 2 {
					cur.Options[f[0]] = strings.Join(f[1:], " ")
				}
				if f[0] == "stableghost" {
					cs.Scan = append(cs.Scan, fmt.Sprintf("assumed: un-framed callees of %s do not modify ghost %s (%s:%d)", cur.Key, strings.Join(f[1:], " "), file, rc.line))
				}
				if f[0] == "trustposts" {
					cs.Scan = append(cs.Scan, fmt.Sprintf("post-conditions of %s are trusted, not proved: %s (%s:%d)", cur.Key, strings.Join(f[1:], " "), file, rc.line))
				}
				if f[0] == "trusted" || f[0] == "assume" {
					cs.Scan = append(cs.Scan, fmt.Sprintf("%s on %s (%s:%d)", f[0], cur.Key, file, rc.line))
				}
			case "sets":
				k := strings.Index(rest, ":=")
				if k < 0 {
					return fail("sets: want `sets ghostvar := expr`")
				}
				c, err := mkClause("sets", rest[k+2:])
				if err != nil {
					return fail("%v", err)
				}
				c.Name = strings.TrimSpace(rest[:k])
				cur.Sets = append(cur.Sets, c)
			case "assume":
				// assume LABEL: expr   -- an explicit, listed assumption made when LABEL (e.g. lock1) is reached
				k := strings.Index(rest, ":")
				if k < 0 {
					return fail("assume: want `assume LABEL: expr`")
				}
				c, err := mkClause("assume", rest[k+1:])
				if err != nil {
					return err
				}
				lbl := strings.TrimSpace(rest[:k])
				cur.Assumes[lbl] = append(cur.Assumes[lbl], c)
				cs.Scan = append(cs.Scan, fmt.Sprintf("assume at %s in %s (%s:%d): %s", lbl, cur.Key, file, rc.line, c.Text))
			case "devirt":
				// devirt r.writer.WriteAt => (*MultiWriterAt).WriteAt
				parts := strings.Split(rest, "=>")
				if len(parts) != 2 {
					return fail("devirt: want `devirt Method => pkg.Type.Method`")
				}
				cur.Devirt[strings.TrimSpace(parts[0])] = qualify(strings.TrimSpace(parts[1]), pkgPath)
			default:
				return fail("unknown clause keyword %q", kw)
			}
		}
	}
	return nil
}

func splitTop(s string, sep byte) []string {
	var out []string
	depth := 0
	last := 0
	for i := 0; i < len(s); i++ {
		switch s[i] {
		case '(', '[':
			depth++
		case ')', ']':
			depth--
		default:
			if s[i] == sep && depth == 0 {
				out = append(out, s[last:i])
				last = i + 1
			}
		}
	}
	return append(out, s[last:])
}

// qualify marks a name written in a contract file of package pkgPath; the engine
// resolves "pkg::a.B" against that package's imports (see Engine.resolveQual).
func qualify(name, pkgPath string) string {
	name = strings.NewReplacer("(", "", ")", "", "*", "").Replace(name)
	if strings.Contains(name, "/") || pkgPath == "" {
		return name
	}
	return pkgPath + "::" + name
}

func newFC() *FuncContract {
	return &FuncContract{Assumes: map[string][]*Clause{}, LoopInv: map[int][]*Clause{}, LabelInv: map[string][]*Clause{}, CallPre: map[string][]*Clause{}, Options: map[string]string{}, Devirt: map[string]string{}}
}

// parseFuncHeader handles  "(c *Controller) Name(params) results"  and  "Name(params) results"
// and, for externs,  "os.Rename(a string, b string) error"  /  "(os.File) Close() error".
func parseFuncHeader(h, pkgPath string) (*FuncContract, error) {
	fc := newFC()
	fc.Header = h
	h = strings.TrimSpace(h)
	recvType := ""
	if strings.HasPrefix(h, "(") {
		k := strings.Index(h, ")")
		if k < 0 {
			return nil, fmt.Errorf("bad receiver in %q", h)
		}
		f := strings.Fields(h[1:k])
		switch len(f) {
		case 1:
			recvType = f[0]
			fc.RecvName = "this"
		case 2:
			fc.RecvName, recvType = f[0], f[1]
		default:
			return nil, fmt.Errorf("bad receiver in %q", h)
		}
		recvType = strings.TrimPrefix(recvType, "*")
		h = strings.TrimSpace(h[k+1:])
	}
	op := strings.Index(h, "(")
	name := h
	if op >= 0 {
		name = strings.TrimSpace(h[:op])
		// params
		depth := 0
		cl := -1
		for i := op; i < len(h); i++ {
			if h[i] == '(' {
				depth++
			}
			if h[i] == ')' {
				depth--
				if depth == 0 {
					cl = i
					break
				}
			}
		}
		if cl < 0 {
			return nil, fmt.Errorf("unbalanced parens in %q", h)
		}
		fc.Params = parseParamList(h[op+1 : cl])
		res := strings.TrimSpace(h[cl+1:])
		if strings.HasPrefix(res, "(") {
			fc.Results = parseParamList(strings.TrimSuffix(strings.TrimPrefix(res, "("), ")"))
		} else if res != "" {
			fc.Results = []SVar{{"", res}}
		}
	}
	if recvType != "" {
		if strings.Contains(recvType, ".") && pkgPath == "" {
			fc.Key = recvType + "." + name
		} else {
			fc.Key = pkgPath + "." + recvType + "." + name
		}
	} else if pkgPath == "" {
		fc.Key = name
	} else {
		fc.Key = pkgPath + "." + name
	}
	return fc, nil
}

func parseParamList(s string) []SVar {
	var out []SVar
	for _, p := range splitTop(s, ',') {
		p = strings.TrimSpace(p)
		if p == "" {
			continue
		}
		k := strings.IndexAny(p, " \t")
		if k < 0 {
			out = append(out, SVar{"", p})
		} else {
			out = append(out, SVar{p[:k], strings.TrimSpace(p[k+1:])})
		}
	}
	// "a, b string" style: fill types from the right
	for i := len(out) - 2; i >= 0; i-- {
		if out[i].Name == "" && out[i+1].Name != "" && !strings.ContainsAny(out[i].Type, "[]*.") && isPlainIdent(out[i].Type) && !isTypeName(out[i].Type) {
			out[i].Name = out[i].Type
			out[i].Type = out[i+1].Type
		}
	}
	return out
}

func isPlainIdent(s string) bool {
	for _, r := range s {
		if !(unicode.IsLetter(r) || unicode.IsDigit(r) || r == '_') {
			return false
		}
	}
	return s != ""
}

func isTypeName(s string) bool {
	switch s {
	case "int", "int64", "int32", "uint", "uint64", "uint32", "uint16", "uint8", "byte", "bool", "string", "error", "ref", "uintptr":
		return true
	}
	return false
}

func parseLockHeader(h, pkgPath string) (*LockInv, error) {
	h = strings.TrimSpace(h)
	if !strings.HasPrefix(h, "(") {
		return nil, fmt.Errorf("lock header wants (recv *Type) Mutex")
	}
	k := strings.Index(h, ")")
	f := strings.Fields(h[1:k])
	if len(f) != 2 {
		return nil, fmt.Errorf("lock header wants (recv *Type) Mutex")
	}
	return &LockInv{RecvName: f[0], RecvType: strings.TrimPrefix(f[1], "*"), Mutex: strings.TrimSpace(h[k+1:]), PkgPath: pkgPath}, nil
}

// ghost func name(params) R { body }   |  ghost func name(params) R   | ghost var name T | pred name(params) { body }
func parseGhost(kw, rest, pkgPath string) (*GhostFunc, *GhostVar, error) {
	if kw == "ghost" {
		f := strings.Fields(rest)
		if len(f) >= 3 && f[0] == "var" {
			return nil, &GhostVar{Name: f[1], Type: strings.Join(f[2:], " "), PkgPath: pkgPath}, nil
		}
		if len(f) == 0 || f[0] != "func" {
			return nil, nil, fmt.Errorf("ghost: want `ghost func` or `ghost var`")
		}
		rest = strings.TrimSpace(strings.TrimPrefix(rest, "func"))
	}
	g := &GhostFunc{IsPred: kw == "pred", PkgPath: pkgPath}
	body := ""
	if k := strings.Index(rest, "{"); k >= 0 {
		body = strings.TrimSpace(rest[k+1:])
		if !strings.HasSuffix(body, "}") {
			return nil, nil, fmt.Errorf("ghost body must end with }")
		}
		body = strings.TrimSuffix(body, "}")
		rest = strings.TrimSpace(rest[:k])
	}
	op := strings.Index(rest, "(")
	cl := strings.LastIndex(rest, ")")
	if op < 0 || cl < op {
		return nil, nil, fmt.Errorf("ghost header %q", rest)
	}
	g.Name = strings.TrimSpace(rest[:op])
	g.Params = parseParamList(rest[op+1 : cl])
	g.Result = strings.TrimSpace(rest[cl+1:])
	if g.IsPred {
		g.Result = "bool"
	}
	if body != "" {
		e, err := ParseSpecExpr(body)
		if err != nil {
			return nil, nil, err
		}
		g.Body = e
	}
	return g, nil, nil
}
