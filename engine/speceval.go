package main

// Evaluation of contract expressions against a symbolic state.

import (
	"fmt"
	"go/ast"
	"go/constant"
	"go/token"
	"go/types"
	"math/big"
	"strings"
)

type SVal struct {
	T   *Term
	Ty  types.Type // Go type when known (needed for field selection)
	Obj bool       // T is the address of a heap-resident struct of type Ty (not a pointer value)
	nil bool
}

type specCtx struct {
	fr      *Frame
	e       *Engine
	st      *State
	old     *State
	bind    map[string]*SVal
	pkgPath string
	pure    bool // inside a ghost function body: no state access
}

type specErr struct{ msg string }

// declaredSomewhere: does the unresolved name in msg denote a local variable declared anywhere in the
// function under contract (so that it is merely out of scope on this path, not a stale name)?
func (c *specCtx) declaredSomewhere(msg string) bool {
	i := strings.Index(msg, "\"")
	j := strings.LastIndex(msg, "\"")
	if i < 0 || j <= i || c.fr.top == nil || c.fr.top.fn == nil || c.fr.top.fn.Decl == nil {
		return false
	}
	name := msg[i+1 : j]
	if nn, ok := c.fr.top.fn.renames[name]; ok {
		name = nn // the local was renamed since the baseline: look for it under its current name
	}
	d := c.fr.top.fn.Decl
	for id, obj := range c.fr.top.fn.Pkg.TypesInfo.Defs {
		if id.Name == name && obj != nil && d.Pos() <= id.Pos() && id.Pos() < d.End() {
			if _, ok := obj.(*types.Var); ok {
				return true
			}
		}
	}
	return false
}

func (c *specCtx) fail(format string, a ...interface{}) {
	panic(specErr{fmt.Sprintf(format, a...)})
}

func (fr *Frame) pkgPath() string {
	if fr.fn != nil {
		return fr.fn.Pkg.PkgPath
	}
	return ""
}

func (fr *Frame) evalSpecBool(st *State, x *SExpr, bind map[string]*SVal, old *State) *Term {
	return fr.evalSpecBoolPkg(st, x, bind, old, fr.top.pkgPath())
}

func (fr *Frame) evalSpecBoolPkg(st *State, x *SExpr, bind map[string]*SVal, old *State, pkgPath string) *Term {
	v := fr.evalSpecPkg(st, x, bind, old, pkgPath)
	if v.T.S != BoolSort {
		panic(specErr{"clause is not boolean: " + x.String()})
	}
	return v.T
}

func (fr *Frame) evalSpecPkg(st *State, x *SExpr, bind map[string]*SVal, old *State, pkgPath string) *SVal {
	if pkgPath == "" {
		pkgPath = fr.top.pkgPath()
	}
	c := &specCtx{fr: fr, e: fr.e, st: st, old: old, bind: map[string]*SVal{}, pkgPath: pkgPath}
	for k, v := range fr.top.specBind {
		c.bind[k] = v
	}
	for k, v := range bind {
		c.bind[k] = v
	}
	return c.eval(x)
}

func (c *specCtx) with(st *State) *specCtx {
	n := *c
	n.st = st
	return &n
}

func (c *specCtx) withBind(extra map[string]*SVal) *specCtx {
	n := *c
	n.bind = map[string]*SVal{}
	for k, v := range c.bind {
		n.bind[k] = v
	}
	for k, v := range extra {
		n.bind[k] = v
	}
	return &n
}

// resolveType parses a Go type written in a contract.
func (e *Engine) resolveType(pkgPath, s string) types.Type {
	s = strings.TrimSpace(s)
	switch s {
	case "ref":
		return types.Typ[types.UnsafePointer]
	case "int":
		return types.Typ[types.Int]
	case "int64":
		return types.Typ[types.Int64]
	case "bool":
		return types.Typ[types.Bool]
	case "string":
		return types.Typ[types.String]
	case "error":
		return types.Universe.Lookup("error").Type()
	}
	if strings.HasPrefix(s, "set[") && strings.HasSuffix(s, "]") {
		k := e.resolveType(pkgPath, s[4:len(s)-1])
		return types.NewMap(k, types.Typ[types.Bool]) // marker; sort handled by caller through "set[" prefix
	}
	s2 := strings.ReplaceAll(s, "ref", "uintptr")
	try := func(pp string) types.Type {
		p := e.pkgs[pp]
		if p == nil {
			return nil
		}
		for _, f := range p.Syntax {
			tv, err := types.Eval(e.fset, p.Types, f.End()-1, s2)
			if err == nil && tv.Type != nil {
				return tv.Type
			}
		}
		return nil
	}
	if t := try(pkgPath); t != nil {
		return t
	}
	// pkgname.name, including unexported names (types.Eval refuses those across packages)
	if i := strings.Index(s, "."); i > 0 && !strings.ContainsAny(s, "[]*( ") {
		for _, p := range e.pkgs {
			if p.Types != nil && p.Types.Name() == s[:i] {
				if tn, ok := p.Types.Scope().Lookup(s[i+1:]).(*types.TypeName); ok {
					return tn.Type()
				}
			}
		}
	}
	for pp := range e.pkgs {
		if t := try(pp); t != nil {
			return t
		}
	}
	panic(specErr{fmt.Sprintf("cannot resolve type %q (package %s)", s, pkgPath)})
}

func (c *specCtx) sortOfTypeStr(s string) (*Sort, types.Type) {
	s = strings.TrimSpace(s)
	if strings.HasPrefix(s, "set[") {
		k := c.e.resolveType(c.pkgPath, s[4:len(s)-1])
		return ArrSort(c.e.sortOf(k), BoolSort), nil
	}
	if strings.HasPrefix(s, "arr[") { // arr[K]V : raw SMT array (V may itself be arr[..].. or set[..])
		i := strings.Index(s, "]")
		k := c.e.resolveType(c.pkgPath, s[4:i])
		vs, _ := c.sortOfTypeStr(s[i+1:])
		return ArrSort(c.e.sortOf(k), vs), nil
	}
	t := c.e.resolveType(c.pkgPath, s)
	return c.e.sortOf(t), t
}

func (c *specCtx) eval(x *SExpr) *SVal {
	e := c.e
	switch x.Kind {
	case "int":
		n := new(big.Int)
		if _, ok := n.SetString(x.Name, 0); !ok {
			c.fail("bad integer %s", x.Name)
		}
		return &SVal{T: BigLit(n), Ty: types.Typ[types.Int]}
	case "bool":
		return &SVal{T: BoolLit(x.Name == "true"), Ty: types.Typ[types.Bool]}
	case "str":
		return &SVal{T: e.strLit(x.Name), Ty: types.Typ[types.String]}
	case "nil":
		return &SVal{T: IntLit(0), nil: true}
	case "id":
		return c.ident(x.Name)
	case "sel":
		// package-qualified name?
		if x.Args[0].Kind == "id" {
			if _, bound := c.bind[x.Args[0].Name]; !bound && !c.isLocal(x.Args[0].Name) {
				if v := c.qualified(x.Args[0].Name, x.Name); v != nil {
					return v
				}
			}
		}
		base := c.eval(x.Args[0])
		return c.selectField(base, x.Name)
	case "idx":
		a := c.eval(x.Args[0])
		i := c.eval(x.Args[1])
		switch {
		case a.T.S.IsSlice():
			return &SVal{T: Select(Acc(a.T, "arr"), i.T), Ty: elemType0(a.Ty)}
		case a.T.S.IsMap():
			i = c.coerce(i, a.T.S.Fields[0].S.K)
			return &SVal{T: Select(Acc(a.T, "val"), i.T), Ty: elemType0(a.Ty)}
		case a.T.S.Kind == SArr:
			i = c.coerce(i, a.T.S.K)
			return &SVal{T: Select(a.T, i.T), Ty: elemType0(a.Ty)}
		}
		c.fail("index into %s in %s", a.T.S, x)
	case "upd":
		a := c.eval(x.Args[0])
		i := c.eval(x.Args[1])
		v := c.eval(x.Args[2])
		switch {
		case a.T.S.Kind == SArr:
			i = c.coerce(i, a.T.S.K)
			v = c.coerce(v, a.T.S.V)
			return &SVal{T: Store(a.T, i.T, v.T), Ty: a.Ty}
		case a.T.S.IsSlice():
			return &SVal{T: With(a.T, "arr", Store(Acc(a.T, "arr"), i.T, v.T)), Ty: a.Ty}
		case a.T.S.IsMap():
			i = c.coerce(i, a.T.S.Fields[0].S.K)
			v = c.coerce(v, a.T.S.Fields[0].S.V)
			m := a.T
			inDom := Select(Acc(m, "dom"), i.T)
			return &SVal{T: Ctor(m.S, Store(Acc(m, "val"), i.T, v.T), Store(Acc(m, "dom"), i.T, True), Ite(inDom, Acc(m, "card"), Add(Acc(m, "card"), IntLit(1)))), Ty: a.Ty}
		}
		c.fail("update of %s", a.T.S)
	case "slice":
		a := c.eval(x.Args[0])
		lo := c.eval(x.Args[1])
		hi := c.eval(x.Args[2])
		if !a.T.S.IsSlice() {
			c.fail("slice of non-slice")
		}
		return &SVal{T: e.subSlice(c.st, a.T, lo.T, hi.T), Ty: a.Ty}
	case "un":
		v := c.eval(x.Args[0])
		if x.Name == "!" {
			return &SVal{T: Not(v.T), Ty: types.Typ[types.Bool]}
		}
		return &SVal{T: Neg(v.T), Ty: v.Ty}
	case "cond":
		g := c.eval(x.Args[0])
		a := c.eval(x.Args[1])
		b := c.eval(x.Args[2])
		a, b = c.unify(a, b)
		return &SVal{T: Ite(g.T, a.T, b.T), Ty: a.Ty}
	case "bin":
		return c.binary(x)
	case "quant":
		return c.quant(x)
	case "let":
		v := c.eval(x.Args[0])
		return c.withBind(map[string]*SVal{x.Name: v}).eval(x.Args[1])
	case "call":
		return c.call(x)
	}
	c.fail("cannot evaluate %s", x)
	return nil
}

func elemType0(t types.Type) types.Type {
	if t == nil {
		return nil
	}
	return elemType(t)
}

func (c *specCtx) coerce(v *SVal, s *Sort) *SVal {
	if v.T.S == s {
		return v
	}
	if v.nil {
		return &SVal{T: c.e.zeroOfSort(s, nil), Ty: v.Ty}
	}
	c.fail("sort mismatch: %s has sort %s, want %s", v.T, v.T.S, s)
	return nil
}

func (c *specCtx) unify(a, b *SVal) (*SVal, *SVal) {
	if a.T.S == b.T.S {
		return a, b
	}
	if a.nil {
		return c.coerce(a, b.T.S), b
	}
	if b.nil {
		return a, c.coerce(b, a.T.S)
	}
	c.fail("sort mismatch between %s : %s and %s : %s", a.T, a.T.S, b.T, b.T.S)
	return nil, nil
}

func (c *specCtx) isLocal(name string) bool {
	if c.pure || c.fr == nil {
		return false
	}
	return c.lookupLocal(name) != nil
}

// lookupLocal finds a Go variable of the function under verification by name.
func (c *specCtx) lookupLocal(name string) *types.Var {
	var best *types.Var
	if c.st == nil {
		return nil
	}
	// variables declared in the function under contract win over same-named locals of inlined callees
	var lo, hi token.Pos
	if c.fr != nil && c.fr.top != nil && c.fr.top.fn != nil && c.fr.top.fn.Decl != nil {
		lo, hi = c.fr.top.fn.Decl.Pos(), c.fr.top.fn.Decl.End()
	}
	inTop := func(v *types.Var) bool { return lo != 0 && lo <= v.Pos() && v.Pos() < hi }
	if c.fr != nil && c.fr.top != nil && c.fr.top.fn != nil {
		if nn, ok := c.fr.top.fn.renames[name]; ok {
			present := false
			for v := range c.st.vars {
				if v.Name() == name && inTop(v) {
					present = true
				}
			}
			if !present {
				name = nn
			}
		}
	}
	for v := range c.st.vars {
		if v.Name() != name {
			continue
		}
		switch {
		case best == nil:
			best = v
		case inTop(v) != inTop(best):
			if inTop(v) {
				best = v
			}
		case v.Pos() > best.Pos():
			best = v
		}
	}
	return best
}

func (c *specCtx) ident(name string) *SVal {
	e := c.e
	if v, ok := c.bind[name]; ok {
		return v
	}
	if !c.pure {
		if v := c.lookupLocal(name); v != nil {
			fr := c.fr
			if fr.top != nil && (fr.top.fn.boxed[v] || fr.fn.boxed[v]) {
				ref := c.st.vars[v]
				if isStructVal(v.Type()) {
					return &SVal{T: ref, Ty: v.Type(), Obj: true}
				}
				return &SVal{T: e.load(c.st, e.cellLoc(ref, v.Type())), Ty: v.Type()}
			}
			return &SVal{T: c.st.vars[v], Ty: v.Type()}
		}
		if gv, ok := e.cs.Vars[name]; ok {
			s, t := c.with(c.st).withPkg(gv.PkgPath).sortOfTypeStr(gv.Type)
			return &SVal{T: e.Heap(c.st, "ghost:"+name, s), Ty: t}
		}
	}
	// package-level object
	if p := e.pkgs[c.pkgPath]; p != nil {
		if obj := p.Types.Scope().Lookup(name); obj != nil {
			if v := c.pkgObject(obj); v != nil {
				return v
			}
		}
	}
	c.fail("stale-contract: unresolved name %q", name)
	return nil
}

func (c *specCtx) withPkg(p string) *specCtx {
	n := *c
	if p != "" {
		n.pkgPath = p
	}
	return &n
}

func (c *specCtx) pkgObject(obj types.Object) *SVal {
	switch o := obj.(type) {
	case *types.Const:
		switch o.Val().Kind() {
		case constant.String:
			return &SVal{T: c.e.strLit(constant.StringVal(o.Val())), Ty: o.Type()}
		case constant.Int:
			n, _ := new(big.Int).SetString(o.Val().ExactString(), 10)
			return &SVal{T: BigLit(n), Ty: o.Type()}
		case constant.Bool:
			return &SVal{T: BoolLit(constant.BoolVal(o.Val())), Ty: o.Type()}
		}
	case *types.Var:
		if c.pure {
			c.fail("package variable %s in pure ghost function", o.Name())
		}
		key := "global:" + o.Pkg().Path() + "." + o.Name()
		if c.fr != nil && c.fr.top != nil && c.fr.top.entry != nil && c.st != nil {
			// a package variable held a well-typed value (nil or an object allocated then) when the function was entered
			ent := c.fr.top.entry
			v0 := c.e.Heap(ent, key, c.e.sortOf(o.Type()))
			c.st.Assume(c.e.typeFacts(v0, o.Type(), ent))
		}
		return &SVal{T: c.e.Heap(c.st, key, c.e.sortOf(o.Type())), Ty: o.Type()}
	}
	return nil
}

func (c *specCtx) qualified(pkgName, name string) *SVal {
	p := c.e.pkgs[c.pkgPath]
	if p == nil {
		// spec files: try all packages by name
		for _, q := range c.e.pkgs {
			if q.Name == pkgName {
				if obj := q.Types.Scope().Lookup(name); obj != nil {
					return c.pkgObject(obj)
				}
			}
		}
		return nil
	}
	for path, ip := range p.Imports {
		_ = path
		if ip.Name == pkgName {
			if obj := ip.Types.Scope().Lookup(name); obj != nil {
				return c.pkgObject(obj)
			}
		}
	}
	// renamed imports
	for _, f := range p.Syntax {
		for _, im := range f.Imports {
			if im.Name != nil && im.Name.Name == pkgName {
				if ip := p.Imports[strings.Trim(im.Path.Value, `"`)]; ip != nil {
					if obj := ip.Types.Scope().Lookup(name); obj != nil {
						return c.pkgObject(obj)
					}
				}
			}
		}
	}
	return nil
}

func (c *specCtx) selectField(base *SVal, name string) *SVal {
	e := c.e
	if base.Ty == nil {
		// raw datatype accessor
		if base.T.S.Kind == SData {
			if i, _ := base.T.S.Field(name); i >= 0 {
				return &SVal{T: Acc(base.T, name)}
			}
		}
		c.fail("field %s of untyped value %s", name, base.T)
	}
	t := base.Ty
	obj, index, _ := types.LookupFieldOrMethod(t, true, nil, name)
	if obj == nil {
		// unexported fields need the declaring package
		if n := namedOf(t); n != nil {
			obj, index, _ = types.LookupFieldOrMethod(t, true, n.Obj().Pkg(), name)
		}
	}
	if obj == nil {
		// search by name in embedded structs of foreign packages
		obj, index = lookupFieldAnyPkg(t, name)
	}
	fv, ok := obj.(*types.Var)
	if !ok || fv == nil {
		c.fail("stale-contract: no field %q in %s", name, t)
	}
	cur := base
	ct := t
	for _, ix := range index {
		if pt, ok := ct.Underlying().(*types.Pointer); ok {
			if !cur.Obj {
				cur = &SVal{T: cur.T, Ty: pt.Elem(), Obj: true}
			}
			ct = pt.Elem()
		}
		stt := ct.Underlying().(*types.Struct)
		f := stt.Field(ix)
		if cur.Obj {
			owner := typeName(ct)
			if isStructVal(f.Type()) && !isSyncType(f.Type()) {
				cur = &SVal{T: e.subRefIn(c.st, owner, f, cur.T), Ty: f.Type(), Obj: true}
			} else {
				if c.pure {
					c.fail("heap access in pure ghost function: %s", name)
				}
				h := e.Heap(c.st, e.fieldKey(owner, f), e.fieldHeapSort(f))
				cur = &SVal{T: Select(h, cur.T), Ty: f.Type()}
			}
		} else {
			cur = &SVal{T: Acc(cur.T, f.Name()), Ty: f.Type()}
		}
		ct = f.Type()
	}
	if cur.Obj {
		// a heap-resident struct used as a value: keep as object reference; materialise on demand
		return cur
	}
	return cur
}

func lookupFieldAnyPkg(t types.Type, name string) (types.Object, []int) {
	if p, ok := t.Underlying().(*types.Pointer); ok {
		t = p.Elem()
	}
	st, ok := t.Underlying().(*types.Struct)
	if !ok {
		return nil, nil
	}
	for i := 0; i < st.NumFields(); i++ {
		if st.Field(i).Name() == name {
			return st.Field(i), []int{i}
		}
	}
	for i := 0; i < st.NumFields(); i++ {
		if st.Field(i).Embedded() {
			if o, idx := lookupFieldAnyPkg(st.Field(i).Type(), name); o != nil {
				return o, append([]int{i}, idx...)
			}
		}
	}
	return nil, nil
}

// value materialises heap-resident structs.
func (c *specCtx) value(v *SVal) *SVal {
	if v.Obj {
		return &SVal{T: c.e.loadObj(c.st, v.T, v.Ty), Ty: v.Ty}
	}
	return v
}

func (c *specCtx) binary(x *SExpr) *SVal {
	boolT := types.Typ[types.Bool]
	switch x.Name {
	case "&&":
		return &SVal{T: And(c.eval(x.Args[0]).T, c.eval(x.Args[1]).T), Ty: boolT}
	case "||":
		return &SVal{T: Or(c.eval(x.Args[0]).T, c.eval(x.Args[1]).T), Ty: boolT}
	case "==>":
		a := c.eval(x.Args[0]).T
		// a consequent naming a local that is not (yet) declared on this path can only hold vacuously:
		// the antecedent must be false there
		var bT *Term
		func() {
			defer func() {
				if r := recover(); r != nil {
					if se, ok := r.(specErr); ok && strings.Contains(se.msg, "unresolved name") && c.fr != nil && !c.pure && c.declaredSomewhere(se.msg) {
						bT = False
						return
					}
					panic(r)
				}
			}()
			bT = c.eval(x.Args[1]).T
		}()
		return &SVal{T: Implies(a, bT), Ty: boolT}
	case "<==>":
		return &SVal{T: Iff(c.eval(x.Args[0]).T, c.eval(x.Args[1]).T), Ty: boolT}
	case "in":
		k := c.eval(x.Args[0])
		m := c.eval(x.Args[1])
		switch {
		case m.T.S.IsMap():
			k = c.coerce(k, m.T.S.Fields[1].S.K)
			return &SVal{T: Select(Acc(m.T, "dom"), k.T), Ty: boolT}
		case m.T.S.Kind == SArr && m.T.S.V == BoolSort:
			k = c.coerce(k, m.T.S.K)
			return &SVal{T: Select(m.T, k.T), Ty: boolT}
		}
		c.fail("`in` on %s", m.T.S)
	}
	a := c.eval(x.Args[0])
	b := c.eval(x.Args[1])
	switch x.Name {
	case "==", "!=":
		var t *Term
		switch {
		case a.nil && b.nil:
			t = True
		case a.nil || b.nil:
			v := a
			if a.nil {
				v = b
			}
			v = c.value(v)
			switch {
			case v.T.S.IsSlice():
				t = Eq(Acc(v.T, "len"), IntLit(0))
			case v.T.S.IsMap():
				t = c.e.isNilMap(v.T)
			case v.T.S == IntSort:
				t = Eq(v.T, IntLit(0))
			default:
				c.fail("comparison of %s with nil", v.T.S)
			}
		default:
			a, b = c.value(a), c.value(b)
			a, b = c.unify(a, b)
			t = Eq(a.T, b.T)
		}
		if x.Name == "!=" {
			t = Not(t)
		}
		return &SVal{T: t, Ty: boolT}
	case "<":
		return &SVal{T: Lt(a.T, b.T), Ty: boolT}
	case "<=":
		return &SVal{T: Le(a.T, b.T), Ty: boolT}
	case ">":
		return &SVal{T: Gt(a.T, b.T), Ty: boolT}
	case ">=":
		return &SVal{T: Ge(a.T, b.T), Ty: boolT}
	case "+":
		if a.T.S == StrSort {
			DeclFunc("go.str.cat", StrSort, StrSort, StrSort)
			return &SVal{T: App("go.str.cat", a.T, b.T), Ty: a.Ty}
		}
		return &SVal{T: Add(a.T, b.T), Ty: a.Ty}
	case "-":
		return &SVal{T: Sub(a.T, b.T), Ty: a.Ty}
	case "*":
		return &SVal{T: Mul(a.T, b.T), Ty: a.Ty}
	case "/":
		return &SVal{T: GoDiv(a.T, b.T), Ty: a.Ty}
	case "%":
		return &SVal{T: GoMod(a.T, b.T), Ty: a.Ty}
	}
	c.fail("operator %s", x.Name)
	return nil
}

var qctr = 0

func (c *specCtx) quant(x *SExpr) *SVal {
	extra := map[string]*SVal{}
	var bound []*Term
	var guards []*Term
	for _, v := range x.Vars {
		s, t := c.sortOfTypeStr(v.Type)
		qctr++
		bv := Var(fmt.Sprintf("%s!q%d", smtIdent(v.Name), qctr), s)
		bound = append(bound, bv)
		extra[v.Name] = &SVal{T: bv, Ty: t}
		_ = guards
	}
	body := c.withBind(extra).eval(x.Args[0])
	if body.T.S != BoolSort {
		c.fail("quantifier body not boolean: %s", x)
	}
	if x.Name == "forall" {
		return &SVal{T: Forall(bound, body.T), Ty: types.Typ[types.Bool]}
	}
	return &SVal{T: Exists(bound, body.T), Ty: types.Typ[types.Bool]}
}

func (c *specCtx) call(x *SExpr) *SVal {
	e := c.e
	boolT := types.Typ[types.Bool]
	switch x.Name {
	case "old":
		if c.old == nil {
			// in a precondition / invariant at entry: old == current
			return c.eval(x.Args[0])
		}
		return c.with(c.old).eval(x.Args[0])
	case "at":
		lbl := x.Args[0].Name
		s := c.st.snaps[lbl]
		if s == nil {
			// label not reached on this path: the clause is about paths through it
			c.fail("at(%s, ...): label not reached on this path", lbl)
		}
		return c.with(s).eval(x.Args[1])
	case "wgcount":
		// wgcount(wg): the tracked counter of the local sync.WaitGroup wg (see evalWaitGroupCall)
		if v, ok := c.st.heap[wgGhostKey(x.Args[0].Name)]; ok {
			return &SVal{T: v, Ty: types.Typ[types.Int]}
		}
		return &SVal{T: IntLit(0), Ty: types.Typ[types.Int]}
	case "reached":
		_, ok := c.st.snaps[x.Args[0].Name]
		return &SVal{T: BoolLit(ok), Ty: boolT}
	case "held":
		key, _ := c.fr.lockKeyOf(c.st, x.Args[0], c.bind, c.pkgPath)
		m, ok := c.st.locks[key]
		if strings.HasPrefix(key, "*#") {
			for k, mm := range c.st.locks {
				if strings.HasSuffix(k, key[1:]) && mm == "W" {
					m, ok = mm, true
				}
			}
		}
		return &SVal{T: BoolLit(ok && m == "W"), Ty: boolT}
	case "locked":
		// locked(x): x's lock is held in either mode (read or write) at this point of the function under contract
		key, _ := c.fr.lockKeyOf(c.st, x.Args[0], c.bind, c.pkgPath)
		_, ok := c.st.locks[key]
		return &SVal{T: BoolLit(ok), Ty: boolT}
	case "len":
		v := c.value(c.eval(x.Args[0]))
		switch {
		case v.T.S.IsSlice():
			if c.st != nil && !strings.Contains(v.T.String(), "!q") && !strings.Contains(v.T.String(), "!l") {
				c.st.Assume(Ge(Acc(v.T, "len"), IntLit(0)))
			}
			return &SVal{T: Acc(v.T, "len"), Ty: types.Typ[types.Int]}
		case v.T.S.IsMap():
			if c.st != nil && !strings.Contains(v.T.String(), "!q") && !strings.Contains(v.T.String(), "!l") {
				c.st.Assume(Implies(Eq(Acc(v.T, "card"), IntLit(0)), Eq(Acc(v.T, "dom"), ConstArr(v.T.S.Fields[1].S, False))))
			}
			return &SVal{T: Acc(v.T, "card"), Ty: types.Typ[types.Int]}
		case v.T.S == StrSort:
			DeclFunc("go.str.len", IntSort, StrSort)
			return &SVal{T: App("go.str.len", v.T), Ty: types.Typ[types.Int]}
		}
		c.fail("len of %s", v.T.S)
	case "dom":
		v := c.eval(x.Args[0])
		return &SVal{T: Acc(v.T, "dom")}
	case "nilmap":
		v := c.eval(x.Args[0])
		return &SVal{T: e.isNilMap(v.T), Ty: boolT}
	case "typeof":
		v := c.eval(x.Args[0])
		return &SVal{T: e.typeOf(v.T), Ty: types.Typ[types.Int]}
	case "tag":
		// tag(pkg.Type) / tag(Type)
		name := x.Args[0].String()
		t := e.resolveType(c.pkgPath, name)
		return &SVal{T: IntLit(e.tagOf(typeName(namedOf(t)))), Ty: types.Typ[types.Int]}
	case "isType":
		v := c.eval(x.Args[0])
		t := e.resolveType(c.pkgPath, x.Args[1].String())
		return &SVal{T: And(Neq(v.T, IntLit(0)), Eq(e.typeOf(v.T), IntLit(e.tagOf(typeName(namedOf(t)))))), Ty: boolT}
	case "cast":
		// cast(x, *T): reinterpret an interface value as pointer to T (for field access)
		v := c.eval(x.Args[0])
		t := e.resolveType(c.pkgPath, "*"+strings.TrimPrefix(x.Args[1].String(), "*"))
		return &SVal{T: v.T, Ty: t}
	case "valof":
		// valof(x, T): the struct value of type T currently stored in the object x refers to
		v := c.eval(x.Args[0])
		t := e.resolveType(c.pkgPath, strings.TrimPrefix(x.Args[1].String(), "*"))
		return &SVal{T: e.loadObj(c.st, v.T, t), Ty: t}
	case "deref":
		// deref(p): the interface value stored in the cell p points to (p: pointer to an interface-typed variable)
		v := c.eval(x.Args[0])
		cells := e.Heap(c.st, "cell:iface", ArrSort(IntSort, IntSort))
		return &SVal{T: Select(cells, v.T)}
	case "empty":
		// empty(K): the empty set over K
		s, _ := c.sortOfTypeStr("set[" + x.Args[0].String() + "]")
		return &SVal{T: ConstArr(s, False)}
	case "bytesOf":
		// bytesOf(s): the []byte(s) conversion of a string (the same uninterpreted function the executor uses)
		v := c.eval(x.Args[0])
		bs := e.sortOf(types.NewSlice(types.Typ[types.Byte]))
		name := "conv$" + smtIdent(v.T.S.Name) + "$" + smtIdent(bs.Name)
		DeclFunc(name, bs, v.T.S)
		return &SVal{T: App(name, v.T), Ty: types.NewSlice(types.Typ[types.Byte])}
	case "bitand":
		// bitand(a, b): Go's a & b on integers (the same uninterpreted function the executor uses for `&`)
		a, b := c.eval(x.Args[0]), c.eval(x.Args[1])
		name := "bit" + smtIdent("&")
		DeclFunc(name, IntSort, IntSort, IntSort)
		return &SVal{T: App(name, a.T, b.T), Ty: types.Typ[types.Int]}
	case "allocated":
		v := c.eval(x.Args[0])
		return &SVal{T: Select(e.Heap(c.st, "$alloc", ArrSort(IntSort, BoolSort)), v.T), Ty: boolT}
	}
	g := e.cs.Ghosts[x.Name]
	if g == nil {
		c.fail("stale-contract: unknown spec function %q", x.Name)
	}
	if len(x.Args) != len(g.Params) {
		c.fail("%s: %d arguments, want %d", x.Name, len(x.Args), len(g.Params))
	}
	if g.IsPred {
		extra := map[string]*SVal{}
		for i, p := range g.Params {
			v := c.eval(x.Args[i])
			if v.Ty == nil && !v.nil {
				_, t := c.withPkg(g.PkgPath).sortOfTypeStr(p.Type)
				v = &SVal{T: v.T, Ty: t, Obj: v.Obj}
			}
			if v.nil {
				s, t := c.withPkg(g.PkgPath).sortOfTypeStr(p.Type)
				v = &SVal{T: e.zeroOfSort(s, t), Ty: t}
			}
			extra[p.Name] = v
		}
		// predicates see only their parameters (and the state)
		n := *c
		n.bind = extra
		n.pkgPath = g.PkgPath
		if n.pkgPath == "" {
			n.pkgPath = c.pkgPath
		}
		// keep quantifier-bound names of the caller out; keep loop specials
		for _, k := range []string{"$k", "$seen", "$range"} {
			if v, ok := c.bind[k]; ok {
				n.bind[k] = v
			}
		}
		return (&n).eval(g.Body)
	}
	decl := e.ghostDecl(g)
	var args []*Term
	for i := range g.Params {
		v := c.value(c.eval(x.Args[i]))
		v = c.coerce(v, decl.Params[i])
		args = append(args, v.T)
	}
	_, rt := c.withPkg(g.PkgPath).sortOfTypeStrSafe(g.Result)
	return &SVal{T: App(decl.Name, args...), Ty: rt}
}

func (c *specCtx) sortOfTypeStrSafe(s string) (*Sort, types.Type) {
	return c.sortOfTypeStr(s)
}

// ghostDecl declares (and defines, if it has a body) the SMT function for a ghost function.
func (e *Engine) ghostDecl(g *GhostFunc) *FuncDecl {
	if g.decl != nil {
		return g.decl
	}
	c := &specCtx{e: e, pkgPath: g.PkgPath, pure: true, bind: map[string]*SVal{}}
	if c.pkgPath == "" {
		for p := range e.pkgs {
			if strings.HasSuffix(p, "/controller") {
				c.pkgPath = p
			}
		}
	}
	var ps []*Sort
	var formals []*Term
	for _, p := range g.Params {
		s, t := c.sortOfTypeStr(p.Type)
		ps = append(ps, s)
		f := Var("g$"+smtIdent(p.Name), s)
		formals = append(formals, f)
		c.bind[p.Name] = &SVal{T: f, Ty: t}
	}
	rs, _ := c.sortOfTypeStr(g.Result)
	name := "gf$" + smtIdent(g.Name)
	d := DeclFunc(name, rs, ps...)
	g.decl = d
	if g.Body != nil {
		d.Formals = formals
		body := c.eval(g.Body)
		if body.T.S != rs {
			panic(specErr{fmt.Sprintf("ghost func %s: body has sort %s, want %s", g.Name, body.T.S, rs)})
		}
		d.Body = body.T
	}
	return d
}

// ---------------------------------------------------------------------------
// modifies clauses

type heapKey struct {
	key  string
	sort *Sort
}

// globalKeyOf: heap key of a package-level variable named in a contract of package pkgPath ("" if there is none).
func (e *Engine) globalKeyOf(pkgPath, name string) string {
	if _, ghost := e.cs.Vars[name]; ghost {
		return ""
	}
	p := e.pkgs[pkgPath]
	if p == nil {
		return ""
	}
	if v, ok := p.Types.Scope().Lookup(name).(*types.Var); ok {
		return "global:" + v.Pkg().Path() + "." + v.Name()
	}
	return ""
}

// modKeys: heap keys (whole field arrays) touched by a modifies item, resolved by types only.
func (e *Engine) modKeys(fc *FuncContract, m *SExpr) []heapKey {
	var out []heapKey
	// ghost variable
	if m.Kind == "id" {
		if gv, ok := e.cs.Vars[m.Name]; ok {
			c := &specCtx{e: e, pkgPath: gv.PkgPath}
			s, _ := c.sortOfTypeStr(gv.Type)
			return []heapKey{{"ghost:" + m.Name, s}}
		}
		if fi := e.funcs[fc.Key]; fi != nil {
			if k := e.globalKeyOf(fi.Pkg.PkgPath, m.Name); k != "" {
				v := e.pkgs[fi.Pkg.PkgPath].Types.Scope().Lookup(m.Name).(*types.Var)
				return []heapKey{{k, e.sortOf(v.Type())}}
			}
		}
	}
	t := e.staticTypeOf(fc, m)
	if t == nil {
		return nil
	}
	_ = t
	if m.Kind == "sel" {
		bt := e.staticTypeOf(fc, m.Args[0])
		if bt == nil {
			return nil
		}
		if p, ok := bt.Underlying().(*types.Pointer); ok {
			bt = p.Elem()
		}
		stt, ok := bt.Underlying().(*types.Struct)
		if !ok {
			return nil
		}
		owner := typeName(bt)
		for i := 0; i < stt.NumFields(); i++ {
			f := stt.Field(i)
			if m.Name == "STAR" || f.Name() == m.Name {
				ms := &modSet{heap: map[string]*Sort{}}
				e.addFieldMods(owner+"."+f.Name(), f, ms)
				for k, s := range ms.heap {
					out = append(out, heapKey{k, s})
				}
			}
		}
	}
	return out
}

// staticTypeOf computes the Go type of a (selector-path) spec expression from the function signature.
func (e *Engine) staticTypeOf(fc *FuncContract, x *SExpr) types.Type {
	switch x.Kind {
	case "id":
		if fi := e.funcs[fc.Key]; fi != nil {
			sig := fi.Obj.Type().(*types.Signature)
			if r := sig.Recv(); r != nil && (r.Name() == x.Name || x.Name == "this") {
				return r.Type()
			}
			for i := 0; i < sig.Params().Len(); i++ {
				if sig.Params().At(i).Name() == x.Name {
					return sig.Params().At(i).Type()
				}
			}
		}
		return nil
	case "sel":
		if x.Name == "STAR" {
			return e.staticTypeOf(fc, x.Args[0])
		}
		bt := e.staticTypeOf(fc, x.Args[0])
		if bt == nil {
			return nil
		}
		obj, _ := lookupFieldAnyPkg(bt, x.Name)
		if obj == nil {
			return nil
		}
		return obj.Type()
	case "idx":
		bt := e.staticTypeOf(fc, x.Args[0])
		if bt == nil {
			return nil
		}
		return elemType(bt)
	}
	return nil
}

// havocModItem havocs what a modifies item denotes in the current state (precisely: at the given object).
func (fr *Frame) havocModItem(st *State, m *SExpr, b map[string]*SVal, pkgPath string, n ast.Node) {
	e := fr.e
	if m.Kind == "id" {
		if gv, ok := e.cs.Vars[m.Name]; ok {
			c := &specCtx{e: e, pkgPath: gv.PkgPath}
			s, _ := c.sortOfTypeStr(gv.Type)
			st.heap["ghost:"+m.Name] = Fresh("G$"+m.Name, s)
			return
		}
	}
	if m.Kind == "id" {
		if k := e.globalKeyOf(pkgPath, m.Name); k != "" {
			v := e.pkgs[pkgPath].Types.Scope().Lookup(m.Name).(*types.Var)
			nv := Fresh("g$"+m.Name, e.sortOf(v.Type()))
			st.Assume(e.typeFacts(nv, v.Type(), st))
			st.heap[k] = nv
			return
		}
	}
	if m.Kind != "sel" {
		panic(specErr{"modifies item must be a field path, a package-level variable or a ghost variable: " + m.String()})
	}
	if owner, fs := e.typeWideMod(m, b, pkgPath); fs != nil {
		// `modifies T.f`: field f of every object of type T
		for _, f := range fs {
			key := e.fieldKey(owner, f)
			st.heap[key] = Fresh("hw$"+f.Name(), e.Heap(st, key, e.fieldHeapSort(f)).S)
		}
		return
	}
	base := fr.evalSpecPkg(st, m.Args[0], b, nil, pkgPath)
	bt := base.Ty
	if bt == nil {
		panic(specErr{"modifies: untyped base " + m.Args[0].String()})
	}
	if p, ok := bt.Underlying().(*types.Pointer); ok {
		bt = p.Elem()
	}
	stt, ok := bt.Underlying().(*types.Struct)
	if !ok {
		panic(specErr{"modifies: base is not a struct: " + m.Args[0].String()})
	}
	owner := typeName(bt)
	found := false
	for i := 0; i < stt.NumFields(); i++ {
		f := stt.Field(i)
		if m.Name == "STAR" || f.Name() == m.Name {
			found = true
			fr.havocField(st, base.T, owner, f)
		}
	}
	if !found {
		panic(specErr{"stale-contract: modifies names unknown field " + m.String()})
	}
}

// typeWideMod recognises a modifies item `T.f` / `T.*` whose base is a named struct type of the package
// (not a parameter or bound name): it denotes the field in every object of that type.
func (e *Engine) typeWideMod(m *SExpr, b map[string]*SVal, pkgPath string) (string, []*types.Var) {
	if m.Kind != "sel" || len(m.Args) == 0 || m.Args[0].Kind != "id" {
		return "", nil
	}
	name := m.Args[0].Name
	if _, bound := b[name]; bound {
		return "", nil
	}
	p := e.pkgs[pkgPath]
	if p == nil {
		return "", nil
	}
	tn, ok := p.Types.Scope().Lookup(name).(*types.TypeName)
	if !ok {
		return "", nil
	}
	stt, ok := tn.Type().Underlying().(*types.Struct)
	if !ok {
		return "", nil
	}
	var fs []*types.Var
	for i := 0; i < stt.NumFields(); i++ {
		f := stt.Field(i)
		if (m.Name == "STAR" || f.Name() == m.Name) && !isSyncType(f.Type()) && !isStructVal(f.Type()) {
			fs = append(fs, f)
		}
	}
	return typeName(tn.Type()), fs
}

func (fr *Frame) havocField(st *State, ref *Term, owner string, f *types.Var) {
	e := fr.e
	if isSyncType(f.Type()) {
		return
	}
	if isStructVal(f.Type()) {
		sub := e.subRef(owner, f, ref)
		stt := f.Type().Underlying().(*types.Struct)
		for i := 0; i < stt.NumFields(); i++ {
			fr.havocField(st, sub, typeName(f.Type()), stt.Field(i))
		}
		return
	}
	key := e.fieldKey(owner, f)
	h := e.Heap(st, key, e.fieldHeapSort(f))
	v := Fresh("hv$"+f.Name(), e.sortOf(f.Type()))
	st.Assume(e.typeFacts(v, f.Type(), st))
	st.heap[key] = Store(h, ref, v)
}

var _ = token.NoPos
