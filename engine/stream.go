package main

import (
	"go/ast"
	"go/token"
	"go/types"
)

// Byte-stream ghost for the rpc wire codec (C15). A writer or reader object w carries a sequence of items:
//   strmN[w]      number of items written so far
//   strmW[w][k]   width in bytes of item k when it is a fixed-size integer (2, 4, 8, ...), 0 for a byte block
//   strmV[w][k]   the integer value of item k
//   strmD[w][k]   the bytes of item k when it is a byte block
//   strmPos[w]    the read cursor of a reader object
// encoding/binary.Write/Read of a fixed-size integer, bufio.Writer.Write/Flush, io.ReadFull and
// io.Reader.Read are interpreted natively over this ghost (trusted: little-endian fixed-size encoding is
// width-preserving and injective; a short Read returns arbitrary contents).

func (e *Engine) strmKeys(st *State) (n, w, v, d, pos *Term) {
	ii := ArrSort(IntSort, IntSort)
	n = e.Heap(st, "ghost:strmN", ii)
	w = e.Heap(st, "ghost:strmW", ArrSort(IntSort, ii))
	v = e.Heap(st, "ghost:strmV", ArrSort(IntSort, ii))
	d = e.Heap(st, "ghost:strmD", ArrSort(IntSort, ArrSort(IntSort, SliceSort(IntSort))))
	pos = e.Heap(st, "ghost:strmPos", ii)
	return
}

func fixedWidth(t types.Type) int {
	b, ok := t.Underlying().(*types.Basic)
	if !ok {
		return 0
	}
	switch b.Kind() {
	case types.Int8, types.Uint8, types.Bool:
		return 1
	case types.Int16, types.Uint16:
		return 2
	case types.Int32, types.Uint32:
		return 4
	case types.Int64, types.Uint64:
		return 8
	}
	return 0
}

// streamBuiltin interprets the calls listed above; ok is false for any other callee.
func (fr *Frame) streamBuiltin(st *State, key string, call *ast.CallExpr, sig *types.Signature) ([]*Term, bool) {
	e := fr.e
	errT := types.Universe.Lookup("error").Type()
	freshErr := func(name string) *Term {
		v := Fresh(name, IntSort)
		st.Assume(e.typeFacts(v, errT, st))
		return v
	}
	switch key {
	case "encoding/binary.Write":
		wd := fixedWidth(fr.info.TypeOf(call.Args[2]))
		if wd == 0 {
			return nil, false
		}
		e.assumed["encoding/binary.Write (native byte-stream ghost)"] = true
		w := fr.eval(st, call.Args[0])
		fr.evalIgnore(st, call.Args[1])
		val := fr.eval(st, call.Args[2])
		err := freshErr("r$binWrite")
		n, ws, vs, _, _ := e.strmKeys(st)
		k := Select(n, w)
		ok := Eq(err, IntLit(0))
		st.heap["ghost:strmW"] = Ite(ok, Store(ws, w, Store(Select(ws, w), k, IntLit(int64(wd)))), ws)
		st.heap["ghost:strmV"] = Ite(ok, Store(vs, w, Store(Select(vs, w), k, val)), vs)
		st.heap["ghost:strmN"] = Ite(ok, Store(n, w, Add(k, IntLit(1))), n)
		return []*Term{err}, true
	case "bufio.Writer.Write":
		e.assumed["bufio.Writer.Write (native byte-stream ghost)"] = true
		sel := call.Fun.(*ast.SelectorExpr)
		w := fr.eval(st, sel.X)
		p := fr.eval(st, call.Args[0])
		err := freshErr("r$bufWrite")
		cnt := Fresh("r$bufWriteN", IntSort)
		n, ws, _, ds, _ := e.strmKeys(st)
		k := Select(n, w)
		ok := Eq(err, IntLit(0))
		st.Assume(Implies(ok, Eq(cnt, Acc(p, "len"))))
		st.heap["ghost:strmW"] = Ite(ok, Store(ws, w, Store(Select(ws, w), k, IntLit(0))), ws)
		st.heap["ghost:strmD"] = Ite(ok, Store(ds, w, Store(Select(ds, w), k, p)), ds)
		st.heap["ghost:strmN"] = Ite(ok, Store(n, w, Add(k, IntLit(1))), n)
		return []*Term{cnt, err}, true
	case "bufio.Writer.Flush":
		e.assumed["bufio.Writer.Flush (native byte-stream ghost)"] = true
		fr.evalIgnore(st, call.Fun.(*ast.SelectorExpr).X)
		return []*Term{freshErr("r$flush")}, true
	case "encoding/binary.Read":
		ue, isAddr := ast.Unparen(call.Args[2]).(*ast.UnaryExpr)
		if !isAddr || ue.Op != token.AND {
			return nil, false
		}
		lt := fr.info.TypeOf(ue.X)
		wd := fixedWidth(lt)
		if wd == 0 {
			return nil, false
		}
		e.assumed["encoding/binary.Read (native byte-stream ghost)"] = true
		r := fr.eval(st, call.Args[0])
		fr.evalIgnore(st, call.Args[1])
		loc := fr.evalLoc(st, ue.X)
		err := freshErr("r$binRead")
		_, ws, vs, _, pos := e.strmKeys(st)
		p := Select(pos, r)
		garbage := Fresh("rd$garbage", e.sortOf(lt))
		st.Assume(e.typeFacts(garbage, lt, st))
		// the decoded value is the item at the cursor when that item has this width (and fits the type: a decoder
		// cannot produce anything else), otherwise arbitrary contents of the type
		item := Select(Select(vs, r), p)
		got := Ite(And(Eq(Select(Select(ws, r), p), IntLit(int64(wd))), e.typeFacts(item, lt, st)), item, garbage)
		ok := Eq(err, IntLit(0))
		e.store(st, loc, Ite(ok, got, e.load(st, loc)))
		st.heap["ghost:strmPos"] = Ite(ok, Store(pos, r, Add(p, IntLit(1))), pos)
		return []*Term{err}, true
	case "io.ReadFull":
		e.assumed["io.ReadFull (native byte-stream ghost)"] = true
		r := fr.eval(st, call.Args[0])
		loc := fr.evalLoc(st, call.Args[1])
		buf := e.load(st, loc)
		err := freshErr("r$readFull")
		cnt := Fresh("r$readFullN", IntSort)
		_, ws, _, ds, pos := e.strmKeys(st)
		p := Select(pos, r)
		item := Select(Select(ds, r), p)
		garbage := Fresh("rd$bytes", buf.S.Fields[0].S)
		match := And(Eq(Select(Select(ws, r), p), IntLit(0)), Eq(Acc(item, "len"), Acc(buf, "len")))
		ok := Eq(err, IntLit(0))
		st.Assume(Implies(ok, Eq(cnt, Acc(buf, "len"))))
		nb := Ctor(buf.S, Ite(match, Acc(item, "arr"), garbage), Acc(buf, "len"))
		e.store(st, loc, Ite(ok, nb, Ctor(buf.S, garbage, Acc(buf, "len"))))
		st.heap["ghost:strmPos"] = Ite(ok, Store(pos, r, Add(p, IntLit(1))), pos)
		return []*Term{cnt, err}, true
	case "io.Reader.Read":
		// a plain Read may return fewer bytes than asked for: contents arbitrary, the cursor moves on
		e.assumed["io.Reader.Read (native byte-stream ghost: short reads possible)"] = true
		sel := call.Fun.(*ast.SelectorExpr)
		r := fr.eval(st, sel.X)
		loc := fr.evalLoc(st, call.Args[0])
		buf := e.load(st, loc)
		err := freshErr("r$read")
		cnt := Fresh("r$readN", IntSort)
		st.Assume(And(Le(IntLit(0), cnt), Le(cnt, Acc(buf, "len"))))
		_, _, _, _, pos := e.strmKeys(st)
		garbage := Fresh("rd$bytes", buf.S.Fields[0].S)
		e.store(st, loc, Ctor(buf.S, garbage, Acc(buf, "len")))
		st.heap["ghost:strmPos"] = Store(pos, r, Add(Select(pos, r), IntLit(1)))
		return []*Term{cnt, err}, true
	}
	return nil, false
}
