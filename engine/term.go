package main

// SMT term IR: sorts, terms, light simplification, SMT-LIB printing.

import (
	"sync/atomic"
	"fmt"
	"math/big"
	"sort"
	"strings"
)

type SortKind int

const (
	SInt SortKind = iota
	SBool
	SUn   // uninterpreted
	SArr  // (Array K V)
	SData // datatype with a single constructor
)

type SField struct {
	Name string
	S    *Sort
}

type Sort struct {
	Kind   SortKind
	Name   string
	K, V   *Sort
	Fields []SField
}

var (
	sortReg  = map[string]*Sort{}
	IntSort  = regSort(&Sort{Kind: SInt, Name: "Int"})
	BoolSort = regSort(&Sort{Kind: SBool, Name: "Bool"})
	StrSort  = regSort(&Sort{Kind: SUn, Name: "Str"})
)

func regSort(s *Sort) *Sort {
	if o, ok := sortReg[s.Name]; ok {
		return o
	}
	sortReg[s.Name] = s
	return s
}

func ArrSort(k, v *Sort) *Sort {
	n := "(Array " + k.Name + " " + v.Name + ")"
	if o, ok := sortReg[n]; ok {
		return o
	}
	return regSort(&Sort{Kind: SArr, Name: n, K: k, V: v})
}

// DataSort registers (or returns) a record datatype.
func DataSort(name string, fields []SField) *Sort {
	if o, ok := sortReg[name]; ok {
		return o
	}
	return regSort(&Sort{Kind: SData, Name: name, Fields: fields})
}

func (s *Sort) Field(name string) (int, *Sort) {
	for i, f := range s.Fields {
		if f.Name == name {
			return i, f.S
		}
	}
	return -1, nil
}

func (s *Sort) Ctor() string          { return "mk_" + s.Name }
func (s *Sort) Acc(f string) string   { return s.Name + "_" + f }
func (s *Sort) String() string        { return s.Name }
func (s *Sort) IsSlice() bool         { return s.Kind == SData && strings.HasPrefix(s.Name, "Slice_") }
func (s *Sort) IsMap() bool           { return s.Kind == SData && strings.HasPrefix(s.Name, "Map_") }
func smtIdent(s string) string {
	var b strings.Builder
	for _, r := range s {
		switch {
		case r >= 'a' && r <= 'z', r >= 'A' && r <= 'Z', r >= '0' && r <= '9', r == '_', r == '.', r == '!', r == '$', r == '#', r == '@', r == '~':
			b.WriteRune(r)
		default:
			b.WriteRune('_')
		}
	}
	return b.String()
}

func SliceSort(elem *Sort) *Sort {
	n := "Slice_" + smtIdent(elem.Name)
	return DataSort(n, []SField{{"arr", ArrSort(IntSort, elem)}, {"len", IntSort}})
}

func MapSort(k, v *Sort) *Sort {
	n := "Map_" + smtIdent(k.Name) + "_" + smtIdent(v.Name)
	return DataSort(n, []SField{{"val", ArrSort(k, v)}, {"dom", ArrSort(k, BoolSort)}, {"card", IntSort}})
}

// ---------------------------------------------------------------------------

type Term struct {
	Op    string // "lit", "var", "app" (uninterpreted / defined fn), or an SMT builtin, "forall", "exists", "ctor", "acc"
	Name  string
	Args  []*Term
	S     *Sort
	Bound []*Term
	Pats  [][]*Term
	str   atomic.Pointer[string] // memoized SMT text (terms are shared between the solver goroutines)
	size  int
}

type FuncDecl struct {
	Name   string
	Params []*Sort
	Res    *Sort
	// defined functions
	Formals []*Term
	Body    *Term
	Rec     bool
}

var funcReg = map[string]*FuncDecl{}

func DeclFunc(name string, res *Sort, params ...*Sort) *FuncDecl {
	if f, ok := funcReg[name]; ok {
		return f
	}
	f := &FuncDecl{Name: name, Params: params, Res: res}
	funcReg[name] = f
	return f
}

var freshCtr = 0

func Fresh(prefix string, s *Sort) *Term {
	freshCtr++
	return Var(fmt.Sprintf("%s!%d", smtIdent(prefix), freshCtr), s)
}

func Var(name string, s *Sort) *Term { return &Term{Op: "var", Name: name, S: s} }

func IntLit(n int64) *Term { return &Term{Op: "lit", Name: fmt.Sprintf("%d", n), S: IntSort} }
func BigLit(n *big.Int) *Term {
	return &Term{Op: "lit", Name: n.String(), S: IntSort}
}

var (
	True  = &Term{Op: "lit", Name: "true", S: BoolSort}
	False = &Term{Op: "lit", Name: "false", S: BoolSort}
)

func BoolLit(b bool) *Term {
	if b {
		return True
	}
	return False
}

func (t *Term) IsTrue() bool  { return t.Op == "lit" && t.Name == "true" }
func (t *Term) IsFalse() bool { return t.Op == "lit" && t.Name == "false" }
func (t *Term) IsLit() bool   { return t.Op == "lit" }

func (t *Term) IntVal() (*big.Int, bool) {
	if t.Op == "lit" && t.S == IntSort {
		n := new(big.Int)
		if _, ok := n.SetString(t.Name, 10); ok {
			return n, true
		}
	}
	return nil, false
}

func mk(op string, s *Sort, args ...*Term) *Term { return &Term{Op: op, S: s, Args: args} }

func App(name string, args ...*Term) *Term {
	f, ok := funcReg[name]
	if !ok {
		panic("App of undeclared function " + name)
	}
	if len(args) != len(f.Params) {
		panic(fmt.Sprintf("App %s: %d args, want %d", name, len(args), len(f.Params)))
	}
	for i, a := range args {
		if a.S != f.Params[i] {
			panic(fmt.Sprintf("App %s: arg %d has sort %s, want %s", name, i, a.S, f.Params[i]))
		}
	}
	return &Term{Op: "app", Name: name, Args: args, S: f.Res}
}

func Not(a *Term) *Term {
	if a.IsTrue() {
		return False
	}
	if a.IsFalse() {
		return True
	}
	if a.Op == "not" {
		return a.Args[0]
	}
	return mk("not", BoolSort, a)
}

func And(as ...*Term) *Term {
	var out []*Term
	for _, a := range as {
		if a == nil || a.IsTrue() {
			continue
		}
		if a.IsFalse() {
			return False
		}
		if a.Op == "and" {
			out = append(out, a.Args...)
			continue
		}
		out = append(out, a)
	}
	switch len(out) {
	case 0:
		return True
	case 1:
		return out[0]
	}
	return mk("and", BoolSort, out...)
}

func Or(as ...*Term) *Term {
	var out []*Term
	for _, a := range as {
		if a == nil || a.IsFalse() {
			continue
		}
		if a.IsTrue() {
			return True
		}
		if a.Op == "or" {
			out = append(out, a.Args...)
			continue
		}
		out = append(out, a)
	}
	switch len(out) {
	case 0:
		return False
	case 1:
		return out[0]
	case 2:
		if Not(out[0]).String() == out[1].String() {
			return True
		}
	}
	return mk("or", BoolSort, out...)
}

func Implies(a, b *Term) *Term {
	if a.IsTrue() {
		return b
	}
	if a.IsFalse() || b.IsTrue() {
		return True
	}
	return mk("=>", BoolSort, a, b)
}

func Iff(a, b *Term) *Term { return Eq(a, b) }

func Eq(a, b *Term) *Term {
	if a.S != b.S {
		panic(fmt.Sprintf("Eq sort mismatch: %s : %s  vs  %s : %s", a, a.S, b, b.S))
	}
	if a == b || a.String() == b.String() {
		return True
	}
	if a.IsLit() && b.IsLit() {
		return BoolLit(a.Name == b.Name)
	}
	if a.S == BoolSort {
		if a.IsTrue() {
			return b
		}
		if b.IsTrue() {
			return a
		}
		if a.IsFalse() {
			return Not(b)
		}
		if b.IsFalse() {
			return Not(a)
		}
	}
	return mk("=", BoolSort, a, b)
}

func Neq(a, b *Term) *Term { return Not(Eq(a, b)) }

func Ite(c, a, b *Term) *Term {
	if c.IsTrue() {
		return a
	}
	if c.IsFalse() {
		return b
	}
	if a.S != b.S {
		panic(fmt.Sprintf("Ite sort mismatch %s vs %s", a.S, b.S))
	}
	if a == b || a.String() == b.String() {
		return a
	}
	if a.S == BoolSort {
		if a.IsTrue() && b.IsFalse() {
			return c
		}
		if a.IsFalse() && b.IsTrue() {
			return Not(c)
		}
	}
	return mk("ite", a.S, c, a, b)
}

func arith(op string, a, b *Term) *Term {
	if a.S != IntSort || b.S != IntSort {
		panic(fmt.Sprintf("arith %s on %s,%s (%s, %s)", op, a.S, b.S, a, b))
	}
	x, okx := a.IntVal()
	y, oky := b.IntVal()
	if okx && oky {
		r := new(big.Int)
		switch op {
		case "+":
			return BigLit(r.Add(x, y))
		case "-":
			return BigLit(r.Sub(x, y))
		case "*":
			return BigLit(r.Mul(x, y))
		}
	}
	if oky && y.Sign() == 0 && (op == "+" || op == "-") {
		return a
	}
	if okx && x.Sign() == 0 && op == "+" {
		return b
	}
	if op == "*" {
		if oky && y.Cmp(big.NewInt(1)) == 0 {
			return a
		}
		if okx && x.Cmp(big.NewInt(1)) == 0 {
			return b
		}
	}
	return mk(op, IntSort, a, b)
}

func Add(a, b *Term) *Term { return arith("+", a, b) }
func Sub(a, b *Term) *Term { return arith("-", a, b) }
func Mul(a, b *Term) *Term { return arith("*", a, b) }
func Neg(a *Term) *Term    { return Sub(IntLit(0), a) }

// GoDiv / GoMod: Go's truncated division (defined functions in the prelude).
func GoDiv(a, b *Term) *Term {
	x, okx := a.IntVal()
	y, oky := b.IntVal()
	if okx && oky && y.Sign() != 0 {
		return BigLit(new(big.Int).Quo(x, y))
	}
	return mk("godiv", IntSort, a, b)
}
func GoMod(a, b *Term) *Term {
	x, okx := a.IntVal()
	y, oky := b.IntVal()
	if okx && oky && y.Sign() != 0 {
		return BigLit(new(big.Int).Rem(x, y))
	}
	return mk("gomod", IntSort, a, b)
}

func cmp(op string, a, b *Term) *Term {
	if a.S != IntSort || b.S != IntSort {
		panic(fmt.Sprintf("cmp %s on %s,%s (%s ; %s)", op, a.S, b.S, a, b))
	}
	x, okx := a.IntVal()
	y, oky := b.IntVal()
	if okx && oky {
		c := x.Cmp(y)
		switch op {
		case "<":
			return BoolLit(c < 0)
		case "<=":
			return BoolLit(c <= 0)
		case ">":
			return BoolLit(c > 0)
		case ">=":
			return BoolLit(c >= 0)
		}
	}
	return mk(op, BoolSort, a, b)
}
func Lt(a, b *Term) *Term { return cmp("<", a, b) }
func Le(a, b *Term) *Term { return cmp("<=", a, b) }
func Gt(a, b *Term) *Term { return cmp(">", a, b) }
func Ge(a, b *Term) *Term { return cmp(">=", a, b) }

func Select(a, i *Term) *Term {
	if a.S.Kind != SArr {
		panic("Select on non-array " + a.S.Name + " : " + a.String())
	}
	if a.S.K != i.S {
		panic(fmt.Sprintf("Select index sort %s, want %s (%s)", i.S, a.S.K, a))
	}
	// select(store(a,i,v), j)
	cur := a
	for cur.Op == "store" {
		if cur.Args[1].String() == i.String() {
			return cur.Args[2]
		}
		// distinct literals: skip
		if cur.Args[1].IsLit() && i.IsLit() {
			cur = cur.Args[0]
			continue
		}
		break
	}
	if cur.Op == "constarr" {
		return cur.Args[0]
	}
	return mk("select", a.S.V, cur, i)
}

func Store(a, i, v *Term) *Term {
	if a.S.Kind != SArr || a.S.K != i.S || a.S.V != v.S {
		panic(fmt.Sprintf("Store sort mismatch: %s [%s] := %s", a.S, i.S, v.S))
	}
	return mk("store", a.S, a, i, v)
}

func ConstArr(s *Sort, v *Term) *Term { return mk("constarr", s, v) }

func Ctor(s *Sort, args ...*Term) *Term {
	if len(args) != len(s.Fields) {
		panic("Ctor arity " + s.Name)
	}
	for i, a := range args {
		if a.S != s.Fields[i].S {
			panic(fmt.Sprintf("Ctor %s field %s: got %s want %s", s.Name, s.Fields[i].Name, a.S, s.Fields[i].S))
		}
	}
	return &Term{Op: "ctor", Name: s.Ctor(), S: s, Args: args}
}

func Acc(t *Term, field string) *Term {
	i, fs := t.S.Field(field)
	if i < 0 {
		panic("Acc: no field " + field + " in " + t.S.Name)
	}
	if t.Op == "ctor" {
		return t.Args[i]
	}
	if t.Op == "ite" && t.Args[1].Op == "ctor" && t.Args[2].Op == "ctor" {
		return Ite(t.Args[0], t.Args[1].Args[i], t.Args[2].Args[i])
	}
	return &Term{Op: "acc", Name: t.S.Acc(field), S: fs, Args: []*Term{t}}
}

// With returns a copy of record t with field set to v.
func With(t *Term, field string, v *Term) *Term {
	args := make([]*Term, len(t.S.Fields))
	for i, f := range t.S.Fields {
		if f.Name == field {
			args[i] = v
		} else {
			args[i] = Acc(t, f.Name)
		}
	}
	return Ctor(t.S, args...)
}

func Forall(bound []*Term, body *Term, pats ...[]*Term) *Term {
	if body.IsTrue() {
		return True
	}
	if len(bound) == 0 {
		return body
	}
	return &Term{Op: "forall", S: BoolSort, Bound: bound, Args: []*Term{body}, Pats: pats}
}
func Exists(bound []*Term, body *Term) *Term {
	if body.IsFalse() {
		return False
	}
	if len(bound) == 0 {
		return body
	}
	return &Term{Op: "exists", S: BoolSort, Bound: bound, Args: []*Term{body}}
}

func (t *Term) Size() int {
	if t.size == 0 {
		n := 1
		for _, a := range t.Args {
			n += a.Size()
			if n > 1<<30 {
				n = 1 << 30
			}
		}
		t.size = n
	}
	return t.size
}

func (t *Term) String() string {
	if p := t.str.Load(); p != nil {
		return *p
	}
	var s string
	switch t.Op {
	case "lit":
		if t.S == IntSort && strings.HasPrefix(t.Name, "-") {
			s = "(- " + t.Name[1:] + ")"
		} else {
			s = t.Name
		}
	case "var":
		s = t.Name
	case "app", "ctor", "acc":
		if len(t.Args) == 0 {
			s = t.Name
		} else {
			s = "(" + t.Name + " " + joinTerms(t.Args) + ")"
		}
	case "constarr":
		s = "((as const " + t.S.Name + ") " + t.Args[0].String() + ")"
	case "forall", "exists":
		var b strings.Builder
		b.WriteString("(" + t.Op + " (")
		for _, v := range t.Bound {
			b.WriteString("(" + v.Name + " " + v.S.Name + ")")
		}
		b.WriteString(") ")
		if len(t.Pats) > 0 {
			b.WriteString("(! " + t.Args[0].String())
			for _, p := range t.Pats {
				b.WriteString(" :pattern (" + joinTerms(p) + ")")
			}
			b.WriteString(")")
		} else {
			b.WriteString(t.Args[0].String())
		}
		b.WriteString(")")
		s = b.String()
	default:
		s = "(" + t.Op + " " + joinTerms(t.Args) + ")"
	}
	t.str.Store(&s)
	return s
}

func joinTerms(ts []*Term) string {
	ss := make([]string, len(ts))
	for i, t := range ts {
		ss[i] = t.String()
	}
	return strings.Join(ss, " ")
}

// Subst replaces variables (by name) in t.
func Subst(t *Term, m map[string]*Term) *Term {
	if len(m) == 0 {
		return t
	}
	switch t.Op {
	case "lit":
		return t
	case "var":
		if r, ok := m[t.Name]; ok {
			return r
		}
		return t
	}
	if t.Op == "forall" || t.Op == "exists" {
		m2 := m
		for _, b := range t.Bound {
			if _, ok := m[b.Name]; ok {
				m2 = map[string]*Term{}
				for k, v := range m {
					m2[k] = v
				}
				for _, b := range t.Bound {
					delete(m2, b.Name)
				}
				break
			}
		}
		nb := Subst(t.Args[0], m2)
		var pats [][]*Term
		for _, p := range t.Pats {
			var np []*Term
			for _, x := range p {
				np = append(np, Subst(x, m2))
			}
			pats = append(pats, np)
		}
		return &Term{Op: t.Op, S: t.S, Bound: t.Bound, Args: []*Term{nb}, Pats: pats}
	}
	changed := false
	args := make([]*Term, len(t.Args))
	for i, a := range t.Args {
		args[i] = Subst(a, m)
		if args[i] != a {
			changed = true
		}
	}
	if !changed {
		return t
	}
	return rebuild(t, args)
}

// rebuild re-applies the smart constructors.
func rebuild(t *Term, args []*Term) *Term {
	switch t.Op {
	case "not":
		return Not(args[0])
	case "and":
		return And(args...)
	case "or":
		return Or(args...)
	case "=>":
		return Implies(args[0], args[1])
	case "=":
		return Eq(args[0], args[1])
	case "ite":
		return Ite(args[0], args[1], args[2])
	case "+", "-", "*":
		return arith(t.Op, args[0], args[1])
	case "<", "<=", ">", ">=":
		return cmp(t.Op, args[0], args[1])
	case "godiv":
		return GoDiv(args[0], args[1])
	case "gomod":
		return GoMod(args[0], args[1])
	case "select":
		return Select(args[0], args[1])
	case "acc":
		i := strings.TrimPrefix(t.Name, t.Args[0].S.Name+"_")
		return Acc(args[0], i)
	}
	return &Term{Op: t.Op, Name: t.Name, S: t.S, Args: args}
}

// ---------------------------------------------------------------------------
// Collection of symbols for emission.

type symSet struct {
	vars  map[string]*Sort
	funcs map[string]*FuncDecl
	sorts map[string]*Sort
	seen  map[*Term]bool
}

func newSymSet() *symSet {
	return &symSet{vars: map[string]*Sort{}, funcs: map[string]*FuncDecl{}, sorts: map[string]*Sort{}, seen: map[*Term]bool{}}
}

func (ss *symSet) addSort(s *Sort) {
	if s == nil || ss.sorts[s.Name] != nil {
		return
	}
	switch s.Kind {
	case SArr:
		ss.addSort(s.K)
		ss.addSort(s.V)
		return
	case SData:
		ss.sorts[s.Name] = s
		for _, f := range s.Fields {
			ss.addSort(f.S)
		}
	case SUn:
		ss.sorts[s.Name] = s
	}
}

func (ss *symSet) collect(t *Term, bound map[string]bool) {
	if ss.seen[t] && len(bound) == 0 {
		return
	}
	if len(bound) == 0 {
		ss.seen[t] = true
	}
	ss.addSort(t.S)
	switch t.Op {
	case "var":
		if !bound[t.Name] {
			ss.vars[t.Name] = t.S
		}
	case "app":
		f := funcReg[t.Name]
		if ss.funcs[t.Name] == nil {
			ss.funcs[t.Name] = f
			for _, p := range f.Params {
				ss.addSort(p)
			}
			ss.addSort(f.Res)
			if f.Body != nil {
				b2 := map[string]bool{}
				for _, fo := range f.Formals {
					b2[fo.Name] = true
				}
				ss.collect(f.Body, b2)
			}
		}
	case "forall", "exists":
		b2 := map[string]bool{}
		for k := range bound {
			b2[k] = true
		}
		for _, b := range t.Bound {
			b2[b.Name] = true
			ss.addSort(b.S)
		}
		ss.collect(t.Args[0], b2)
		for _, p := range t.Pats {
			for _, x := range p {
				ss.collect(x, b2)
			}
		}
		return
	}
	for _, a := range t.Args {
		ss.collect(a, bound)
	}
}

const smtPrelude = `(define-fun godiv ((a Int) (b Int)) Int
  (ite (>= a 0) (ite (> b 0) (div a b) (- (div a (- b))))
                (ite (> b 0) (- (div (- a) b)) (div (- a) (- b)))))
(define-fun gomod ((a Int) (b Int)) Int (ite (>= a 0) (mod a b) (- (mod (- a) b))))
`

// EmitSMT renders a complete SMT-LIB2 query: hyps ∧ ¬goal.
func EmitSMT(hyps []*Term, goal *Term, wantModel bool) string {
	ss := newSymSet()
	for _, h := range hyps {
		ss.collect(h, nil)
	}
	ss.collect(goal, nil)
	var b strings.Builder
	if wantModel {
		b.WriteString("(set-option :produce-models true)\n")
	}
	b.WriteString("(set-logic ALL)\n")
	// sorts: uninterpreted first, then datatypes in dependency order
	var names []string
	for n := range ss.sorts {
		names = append(names, n)
	}
	sort.Strings(names)
	for _, n := range names {
		if ss.sorts[n].Kind == SUn {
			b.WriteString("(declare-sort " + n + " 0)\n")
		}
	}
	emitted := map[string]bool{}
	var emitData func(s *Sort)
	var dep func(s *Sort)
	dep = func(s *Sort) {
		switch s.Kind {
		case SArr:
			dep(s.K)
			dep(s.V)
		case SData:
			emitData(s)
		}
	}
	emitData = func(s *Sort) {
		if emitted[s.Name] {
			return
		}
		emitted[s.Name] = true
		for _, f := range s.Fields {
			dep(f.S)
		}
		b.WriteString("(declare-datatypes ((" + s.Name + " 0)) (((" + s.Ctor())
		for _, f := range s.Fields {
			b.WriteString(" (" + s.Acc(f.Name) + " " + f.S.Name + ")")
		}
		b.WriteString("))))\n")
	}
	for _, n := range names {
		if ss.sorts[n].Kind == SData {
			emitData(ss.sorts[n])
		}
	}
	b.WriteString(smtPrelude)
	// uninterpreted functions, then defined
	var fnames []string
	for n := range ss.funcs {
		fnames = append(fnames, n)
	}
	sort.Strings(fnames)
	for _, n := range fnames {
		f := ss.funcs[n]
		if f.Body == nil {
			b.WriteString("(declare-fun " + n + " (")
			for i, p := range f.Params {
				if i > 0 {
					b.WriteString(" ")
				}
				b.WriteString(p.Name)
			}
			b.WriteString(") " + f.Res.Name + ")\n")
		}
	}
	// string literals that end in another literal of the query are that literal appended to their prefix
	// ("volume.meta" == "volume" + ".meta"); concatenation cancels on both sides
	var strFacts []string
	if _, usesCat := ss.funcs["go.str.cat"]; usesCat {
		byName := map[string]string{}
		for lit, t := range strLitRegistry {
			byName[t.Name] = lit
		}
		var present []string
		for n := range ss.vars {
			if _, ok := byName[n]; ok && strings.HasPrefix(n, "str$") {
				present = append(present, n)
			}
		}
		sort.Strings(present)
		for _, ln := range present {
			for _, sn := range present {
				l, sfx := byName[ln], byName[sn]
				if sfx == "" || l == sfx || !strings.HasSuffix(l, sfx) {
					continue
				}
				pre := l[:len(l)-len(sfx)]
				pn := ""
				if t, ok := strLitRegistry[pre]; ok {
					pn = t.Name
				} else {
					pn = fmt.Sprintf("str$pre$%s$%d", smtIdent(pre), len(pre))
				}
				if _, ok := ss.vars[pn]; !ok {
					ss.vars[pn] = StrSort
				}
				strFacts = append(strFacts, "(assert (= "+ln+" (go.str.cat "+pn+" "+sn+")))")
			}
		}
		strFacts = append(strFacts,
			"(assert (forall ((a!sc Str) (b!sc Str) (s!sc Str)) (! (=> (= (go.str.cat a!sc s!sc) (go.str.cat b!sc s!sc)) (= a!sc b!sc)) :pattern ((go.str.cat a!sc s!sc) (go.str.cat b!sc s!sc)))))",
			"(assert (forall ((a!sc Str) (b!sc Str) (s!sc Str)) (! (=> (= (go.str.cat s!sc a!sc) (go.str.cat s!sc b!sc)) (= a!sc b!sc)) :pattern ((go.str.cat s!sc a!sc) (go.str.cat s!sc b!sc)))))")
	}
	var vnames []string
	for n := range ss.vars {
		vnames = append(vnames, n)
	}
	sort.Strings(vnames)
	for _, n := range vnames {
		b.WriteString("(declare-fun " + n + " () " + ss.vars[n].Name + ")\n")
	}
	for _, f := range strFacts {
		b.WriteString(f + "\n")
	}
	// distinct string literals
	var lits []string
	for _, n := range vnames {
		if strings.HasPrefix(n, "str$") {
			lits = append(lits, n)
		}
	}
	if len(lits) > 1 {
		b.WriteString("(assert (distinct " + strings.Join(lits, " ") + "))\n")
	}
	// the length of a string literal (when the query talks about string lengths at all)
	if _, usesLen := ss.funcs["go.str.len"]; usesLen {
		lenOf := map[string]int{}
		for lit, t := range strLitRegistry {
			lenOf[t.Name] = len(lit)
		}
		for _, n := range lits {
			if l, ok := lenOf[n]; ok {
				b.WriteString(fmt.Sprintf("(assert (= (go.str.len %s) %d))\n", n, l))
			}
		}
	}
	var defs []*FuncDecl
	for _, n := range fnames {
		if ss.funcs[n].Body != nil {
			defs = append(defs, ss.funcs[n])
		}
	}
	if len(defs) > 0 {
		// one define-funs-rec block (handles mutual references and ordering)
		b.WriteString("(define-funs-rec (\n")
		for _, f := range defs {
			b.WriteString("  (" + f.Name + " (")
			for _, fo := range f.Formals {
				b.WriteString("(" + fo.Name + " " + fo.S.Name + ")")
			}
			b.WriteString(") " + f.Res.Name + ")\n")
		}
		b.WriteString(") (\n")
		for _, f := range defs {
			b.WriteString("  " + f.Body.String() + "\n")
		}
		b.WriteString("))\n")
	}
	for _, h := range hyps {
		if h.IsTrue() {
			continue
		}
		b.WriteString("(assert " + h.String() + ")\n")
	}
	b.WriteString("(assert (not " + goal.String() + "))\n")
	b.WriteString("(check-sat)\n")
	if wantModel {
		b.WriteString("(get-model)\n")
	}
	return b.String()
}

// alphaKey: a string that is equal for alpha-equivalent terms (bound variables renamed by binder depth and position).
func alphaKey(t *Term) string {
	var b strings.Builder
	alphaWrite(&b, t, map[string]string{}, 0)
	return b.String()
}

func alphaWrite(b *strings.Builder, t *Term, ren map[string]string, depth int) {
	switch {
	case t.Op == "var":
		if r, ok := ren[t.Name]; ok {
			b.WriteString(r)
		} else {
			b.WriteString(t.Name)
		}
	case t.Op == "lit":
		b.WriteString(t.Name)
	case t.Op == "forall" || t.Op == "exists":
		r2 := make(map[string]string, len(ren)+len(t.Bound))
		for k, v := range ren {
			r2[k] = v
		}
		b.WriteString("(" + t.Op + " (")
		for i, v := range t.Bound {
			n := fmt.Sprintf("?%d.%d", depth, i)
			r2[v.Name] = n
			b.WriteString(n + ":" + v.S.Name + " ")
		}
		b.WriteString(") ")
		alphaWrite(b, t.Args[0], r2, depth+1)
		b.WriteString(")")
	default:
		b.WriteString("(" + t.Op + ":" + t.Name)
		for _, a := range t.Args {
			b.WriteString(" ")
			alphaWrite(b, a, ren, depth)
		}
		b.WriteString(")")
	}
}
