package main

// Top-level verification of one function against its contract; obligations.

import (
	"fmt"
	"go/ast"
	"go/token"
	"go/types"
	"sort"
	"strings"
)

type Obligation struct {
	Name      string // fn/kind@site
	Key       string // fn/kind
	Fn        string
	Kind      string
	Props     []string
	Hyps      []*Term
	Goal      *Term
	Pos       string
	Clause    string
	Descr     string
	ExpectSat bool // cover / canary: must NOT be unsat
	VacuousSite bool // thorough tier: hypotheses at this site are unsatisfiable
	// results
	Status string // proved | refuted | unknown | trivial | covered | vacuous
	Solver string
	Ms     int64
	Model  string
	Output string
	SMT    string
	Obs    []NamedTerm
	Vals   map[string]string
}

var safetyKinds = map[string]bool{"index": true, "slice": true, "divzero": true, "assert": true, "nofatal": true, "nopanic": true, "makelen": true,
	"slice-alias": true, "lock-free": true, "unlock-held": true, "lock-balance": true, "wg-balance": true, "block-under-lock": true, "nil": true, "overflow": true, "guarded": true, "devirt": true}

func (e *Engine) oblige(fr *Frame, st *State, kind, detail string, site int, goal *Term, node ast.Node, cl *Clause, descr string) {
	if st.Infeasible() {
		return
	}
	top := fr.top
	fn := shortKey(top.fn.Key)
	k := kind
	if detail != "" {
		k += ":" + detail
	}
	o := &Obligation{Fn: fn, Kind: kind, Key: fn + "/" + k, Goal: goal, Descr: descr}
	o.Name = o.Key
	if site > 0 {
		o.Name = fmt.Sprintf("%s@%d", o.Key, site)
	}
	if fr != top && fr.fn != nil && fr.fn != top.fn {
		o.Descr = strings.TrimSpace(o.Descr + " (in inlined " + shortKey(fr.fn.Key) + ")")
	}
	if node != nil {
		o.Pos = e.pos(node)
	}
	if cl != nil {
		o.Clause = cl.Text
		if len(cl.Props) > 0 {
			o.Props = cl.Props
		}
	}
	if o.Props == nil && top.fc != nil {
		base := strings.SplitN(kind, ":", 2)[0]
		base = strings.SplitN(base, "#", 2)[0]
		if base == "slice-alias" {
			// a failed slice-alias obligation means the engine's model of this function is not what Go does: it concerns
			// every property the function takes part in
			o.Props = top.fc.Props
		} else if safetyKinds[base] {
			o.Props = strings.Fields(top.fc.Options["safetyprops"])
		} else {
			o.Props = top.fc.Props
		}
	}
	o.Hyps = append([]*Term(nil), st.path...)
	if !goal.IsTrue() {
		o.Obs = e.observablesOf(fr, st)
	}
	e.obls = append(e.obls, o)
}

// prepFunc computes loop ordinals and boxed (address-taken) locals.
func (e *Engine) prepFunc(fi *FuncInfo) {
	if fi.loops != nil {
		return
	}
	fi.loops = map[ast.Node]int{}
	fi.rets = map[ast.Node]int{}
	fi.boxed = map[*types.Var]bool{}
	info := fi.Pkg.TypesInfo
	n := 0
	ast.Inspect(fi.Decl, func(nd ast.Node) bool {
		switch x := nd.(type) {
		case *ast.ForStmt, *ast.RangeStmt:
			n++
			fi.loops[nd] = n
		case *ast.ReturnStmt:
			fi.rets[nd] = len(fi.rets) + 1
		case *ast.UnaryExpr:
			if x.Op == token.AND {
				if id, ok := x.X.(*ast.Ident); ok {
					if v, ok := info.ObjectOf(id).(*types.Var); ok && v.Pkg() != nil && v.Parent() != v.Pkg().Scope() {
						fi.boxed[v] = true
					}
				}
			}
		case *ast.CallExpr:
			// pointer-receiver method call on a local struct variable (non-sync)
			if selx, ok := x.Fun.(*ast.SelectorExpr); ok {
				if sel := info.Selections[selx]; sel != nil && sel.Kind() == types.MethodVal {
					if id, ok := selx.X.(*ast.Ident); ok {
						if v, ok := info.ObjectOf(id).(*types.Var); ok && v.Pkg() != nil && v.Parent() != v.Pkg().Scope() {
							if isStructVal(v.Type()) && !isSyncType(v.Type()) {
								if fn, ok := sel.Obj().(*types.Func); ok {
									if r := fn.Type().(*types.Signature).Recv(); r != nil {
										if _, isPtr := r.Type().(*types.Pointer); isPtr {
											fi.boxed[v] = true
										}
									}
								}
							}
						}
					}
				}
			}
		}
		return true
	})
}

type funcReport struct {
	Key        string
	Err        string // out-of-subset / stale-contract
	NObl       int
	ReturnPaths int
}

// VerifyFunc symbolically executes fi against fc and appends obligations.
func (e *Engine) VerifyFunc(fi *FuncInfo, fc *FuncContract) (rep funcReport) {
	rep.Key = fi.Key
	start := len(e.obls)
	defer func() {
		if r := recover(); r != nil {
			switch x := r.(type) {
			case subsetErr:
				rep.Err = "out-of-subset: " + x.msg
			case specErr:
				rep.Err = "contract-error: " + x.msg
			default:
				panic(r)
			}
			e.obls = e.obls[:start]
		}
		rep.NObl = len(e.obls) - start
	}()
	e.prepFunc(fi)
	e.curFn = fi.Key
	e.noMerge = fc != nil && fc.Options["nomerge"] != ""
	st := NewState()
	fr := &Frame{e: e, fn: fi, info: fi.Pkg.TypesInfo, fc: fc}
	fr.top = fr
	sig := fi.Obj.Type().(*types.Signature)
	bindParam := func(v *types.Var) {
		if v.Name() == "_" || v.Name() == "" {
			return
		}
		t := Var("p$"+smtIdent(v.Name()), e.sortOf(v.Type()))
		st.Assume(e.typeFacts(t, v.Type(), st))
		if _, isPtr := v.Type().Underlying().(*types.Pointer); isPtr || types.IsInterface(v.Type()) {
			al := e.Heap(st, "$alloc", ArrSort(IntSort, BoolSort))
			st.Assume(Or(Eq(t, IntLit(0)), Select(al, t)))
		}
		if fr.paramVals == nil {
			fr.paramVals = map[*types.Var]*Term{}
		}
		fr.paramVals[v] = t
		if fi.boxed[v] {
			fr.bindBoxed(st, v, t)
			return
		}
		st.vars[v] = t
	}
	if r := sig.Recv(); r != nil {
		bindParam(r)
		fr.recvVar = r
		if t, ok := st.vars[r]; ok && e.sortOf(r.Type()) == IntSort {
			st.Assume(Neq(t, IntLit(0))) // method-receiver convention: verified for a non-nil receiver
		}
	}
	for i := 0; i < sig.Params().Len(); i++ {
		bindParam(sig.Params().At(i))
	}
	fr.results = resultVars(fi, sig)
	for _, rv := range fr.results {
		st.vars[rv] = e.zeroValue(rv.Type())
	}
	// requires
	for _, c := range fc.Requires {
		if hk, ok := heldClause(c.Expr); ok {
			key, _ := fr.lockKeyOf(st, hk, nil, fi.Pkg.PkgPath)
			st.locks[key] = "W"
			continue
		}
		st.Assume(fr.evalSpecBool(st, c.Expr, nil, nil))
	}
	entryLocks := map[string]string{}
	for k, v := range st.locks {
		entryLocks[k] = v
	}
	fr.entry = st.Clone()
	// cover: the precondition is satisfiable
	e.obls = append(e.obls, &Obligation{Fn: shortKey(fi.Key), Kind: "cover", Key: shortKey(fi.Key) + "/cover:pre", Name: shortKey(fi.Key) + "/cover:pre",
		Props: fc.Props, Hyps: append([]*Term(nil), st.path...), Goal: False, ExpectSat: true, Descr: "precondition and type invariants are satisfiable"})

	outs := fr.execBlock(st, fi.Decl.Body.List)
	nret := 0
	for _, o := range outs {
		switch o.kind {
		case oNormal, oReturn:
		default:
			panic(subsetErr{fmt.Sprintf("control flow escapes function body (%v %s)", o.kind, o.label)})
		}
		fr.deferredUnlock = true
		finals := fr.runDefers(o.st, 0)
		fr.deferredUnlock = false
		for _, fs := range finals {
			if fs.Infeasible() {
				continue
			}
			nret++
			fr.checkExit(fs, fc, entryLocks, nret)
		}
	}
	rep.ReturnPaths = nret
	return rep
}

func (fr *Frame) checkExit(st *State, fc *FuncContract, entryLocks map[string]string, nret int) {
	e := fr.e
	fi := fr.fn
	sig := fi.Obj.Type().(*types.Signature)
	// result bindings
	b := map[string]*SVal{}
	for i, rv := range fr.results {
		sv := &SVal{T: st.vars[rv], Ty: rv.Type()}
		b[fmt.Sprintf("result%d", i)] = sv
		if len(fr.results) == 1 {
			b["result"] = sv
		}
		if i < len(fc.Results) && fc.Results[i].Name != "" {
			b[fc.Results[i].Name] = sv
		}
		if n := sig.Results().At(i).Name(); n != "" && n != "_" {
			b[n] = sv
		}
	}
	// in postconditions parameter names denote their entry values
	if r := sig.Recv(); r != nil {
		if v, ok := fr.paramVals[r]; ok {
			b[r.Name()] = &SVal{T: v, Ty: r.Type()}
		}
	}
	for i := 0; i < sig.Params().Len(); i++ {
		p := sig.Params().At(i)
		if v, ok := fr.paramVals[p]; ok {
			if _, shadow := b[p.Name()]; !shadow {
				b[p.Name()] = &SVal{T: v, Ty: p.Type()}
			}
		}
	}
	// lock balance
	bal := sameLocks(st.locks, entryLocks)
	var heldNow []string
	for k := range st.locks {
		heldNow = append(heldNow, k[strings.LastIndex(k, "#")+1:])
	}
	sort.Strings(heldNow)
	e.oblige(fr, st, "lock-balance", "", nret, BoolLit(bal), nil, nil, fmt.Sprintf("locks held at return %v differ from entry", heldNow))
	// `sets g := expr`: ghost assignment performed at every return (the ghost variable must be in `modifies`
	// unless the contract is `noframe`); callers see it through the ensures clauses that mention g
	for _, c := range fc.Sets {
		v := fr.evalSpecPkg(st, c.Expr, b, fr.entry, "")
		st.heap["ghost:"+c.Name] = v.T
	}
	for i, c := range fc.Ensures {
		var g *Term
		func() {
			defer func() {
				if r := recover(); r != nil {
					if se, ok := r.(specErr); ok && strings.Contains(se.msg, "label not reached") {
						g = True // clause about a label this path never passed
						return
					}
					panic(r)
				}
			}()
			g = fr.evalSpecBool(st, c.Expr, b, fr.entry)
		}()
		name := c.Name
		if name == "" {
			name = fmt.Sprintf("%d", i+1)
		}
		if fc.Options["trustposts"] != "" {
			// `option trustposts`: the post-conditions stay assumptions (listed); the body is still executed for its
			// call-site clauses, frame and run-time checks
			e.assumed["post-conditions of "+shortKey(fi.Key)+" (option trustposts: "+fc.Options["trustposts"]+")"] = true
			continue
		}
		e.oblige(fr, st, "post#"+name, "", nret, g, nil, c, "")
	}
	// frame
	fr.checkFrame(st, fc, nret)
	// canary: `ensures false` must not be provable on this path
	e.obls = append(e.obls, &Obligation{Fn: shortKey(fi.Key), Kind: "canary", Key: shortKey(fi.Key) + "/canary", Name: fmt.Sprintf("%s/canary:ret#%d@%d", shortKey(fi.Key), st.retOrd, nret),
		Props: fc.Props, Hyps: append([]*Term(nil), st.path...), Goal: False, ExpectSat: true, Descr: "`ensures false` must be refuted (path is feasible)"})
}

// checkFrame: everything not named by `modifies` is unchanged (heap arrays compared at all
// references that were allocated at entry).
func (fr *Frame) checkFrame(st *State, fc *FuncContract, nret int) {
	e := fr.e
	if fc.Options["noframe"] != "" {
		return
	}
	if fc.Options["trustframe"] != "" {
		// `option trustframe`: the `modifies` list stays what callers rely on, but it is not checked against the
		// body (which calls un-framed functions); listed as an assumption
		e.assumed["frame (`modifies`) of "+shortKey(fr.top.fn.Key)+" (option trustframe)"] = true
		return
	}
	var keys []string
	for k := range st.heap {
		keys = append(keys, k)
	}
	sort.Strings(keys)
	for _, k := range keys {
		if g := fr.frameFact(st, k); g != nil {
			e.oblige(fr, st, "frame", shortKey(k), nret, g, nil, nil, "only what `modifies` names may change")
		}
	}
}

// frameAllowed computes, once per verified function, what `modifies` permits per heap key.
func (fr *Frame) frameAllowed() (map[string][]*Term, map[string]bool) {
	top := fr.top
	if top.allowed != nil {
		return top.allowed, top.wholeOK
	}
	e := fr.e
	allowed := map[string][]*Term{}
	whole := map[string]bool{}
	top.allowed, top.wholeOK = allowed, whole
	if top.fc == nil {
		return allowed, whole
	}
	for _, m := range top.fc.Modifies {
		if m.Kind == "id" {
			whole["ghost:"+m.Name] = true
			if k := e.globalKeyOf(top.fn.Pkg.PkgPath, m.Name); k != "" {
				whole[k] = true
			}
			continue
		}
		if m.Kind != "sel" {
			continue
		}
		if owner, fs := e.typeWideMod(m, top.paramBindings(), top.fn.Pkg.PkgPath); fs != nil {
			for _, f := range fs {
				whole[e.fieldKey(owner, f)] = true
			}
			continue
		}
		base := top.evalSpecPkg(top.entry.Clone(), m.Args[0], nil, nil, "")
		bt := base.Ty
		if p, ok := bt.Underlying().(*types.Pointer); ok {
			bt = p.Elem()
		}
		stt, ok := bt.Underlying().(*types.Struct)
		if !ok {
			continue
		}
		var add func(ref *Term, owner string, f *types.Var)
		add = func(ref *Term, owner string, f *types.Var) {
			if isSyncType(f.Type()) {
				return
			}
			if isStructVal(f.Type()) {
				sub := e.subRef(owner, f, ref)
				s2 := f.Type().Underlying().(*types.Struct)
				for i := 0; i < s2.NumFields(); i++ {
					add(sub, typeName(f.Type()), s2.Field(i))
				}
				return
			}
			k := e.fieldKey(owner, f)
			allowed[k] = append(allowed[k], ref)
		}
		for i := 0; i < stt.NumFields(); i++ {
			f := stt.Field(i)
			if m.Name == "STAR" || f.Name() == m.Name {
				add(base.T, typeName(bt), f)
			}
		}
	}
	return allowed, whole
}

// frameFact: heap key k differs from the function's entry state only where `modifies` allows
// (or at objects allocated since entry). nil when trivially true.
func (fr *Frame) frameFact(st *State, k string) *Term {
	e := fr.e
	entry := fr.top.entry
	if fr.top.fc != nil && (fr.top.fc.Options["noframe"] != "" || fr.top.fc.Options["trustframe"] != "") {
		return nil
	}
	allowed, whole := fr.frameAllowed()
	if k == "$alloc" || strings.HasPrefix(k, "box$") || strings.HasPrefix(k, "cell:") || localLogKey(k) || whole[k] || fr.top.lockedKeys[k] {
		return nil
	}
	nv, ok := st.heap[k]
	if !ok {
		return nil
	}
	ov, ok := entry.heap[k]
	if !ok {
		ov = initHeapSym(entry, k, nv.S)
	}
	if nv == ov || nv.String() == ov.String() {
		return nil
	}
	if strings.HasPrefix(k, "global:") || strings.HasPrefix(k, "ghost:") {
		return Eq(nv, ov)
	}
	alloc0 := e.Heap(entry, "$alloc", ArrSort(IntSort, BoolSort))
	r := Var("r!f", IntSort)
	cond := Select(alloc0, r)
	for _, a := range allowed[k] {
		cond = And(cond, Neq(r, a))
	}
	return Forall([]*Term{r}, Implies(cond, Eq(Select(nv, r), Select(ov, r))))
}

// paramBindings: names of the receiver and parameters of the function under contract (they shadow type names).
func (fr *Frame) paramBindings() map[string]*SVal {
	out := map[string]*SVal{}
	sig := fr.fn.Obj.Type().(*types.Signature)
	if sig.Recv() != nil {
		out[sig.Recv().Name()] = nil
	}
	for i := 0; i < sig.Params().Len(); i++ {
		out[sig.Params().At(i).Name()] = nil
	}
	return out
}
