#!/bin/sh
# usage: mut.sh <prop> <file> <sed-expr>   -- apply a sed mutation to /repo file, run check, restore
prop=$1; file=$2; expr=$3
cd /repo && cp $file /tmp/mut.bak && sed -i "$expr" $file && git diff --stat -- $file | tail -1
export GOFLAGS=-mod=mod GOPROXY=off GOSUMDB=off GOTOOLCHAIN=local
go build ./... 2>&1 | head -3
cd /verif && ./bin/jv check --property $prop --no-evidence 2>&1 | grep -v '^jv:' | cut -c1-220 | head -8
./bin/jv check --property $prop --no-evidence 2>&1 | grep '^jv:'
cp /tmp/mut.bak /repo/$file
