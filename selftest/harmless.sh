#!/bin/sh
# Harmless-edit corpus: property-preserving edits of /repo (each applied in a scratch worktree); the property's
# check must stay at exit 0. Run by hand after engine changes: selftest/harmless.sh
cd /verif
t() { echo "== $1"; shift; tools/try_edit.sh "$@" | tail -1; }
t "H1 rename a local named in a loop invariant" C03 controller/control.go 's/\brwReplicaCount\b/rwCnt/g'
t "H2 reorder two independent assignments" C12 replica/replica.go '/^\tinfo.Head = newHeadDisk.Name$/{N;s/\tinfo.Head = newHeadDisk.Name\n\tinfo.Dirty = true/\tinfo.Dirty = true\n\tinfo.Head = newHeadDisk.Name/}'
t "H3 add a log line" C03 controller/control.go 's/^func (c \*Controller) UpdateVolStatus() {/func (c *Controller) UpdateVolStatus() {\n\tlogrus.Debugf("updating volume status")/'
t "H4 extract a helper method" C16 controller/control.go 's/^\tc.size = sizeInBytes$/\tc.setSize(sizeInBytes)/; $a func (c *Controller) setSize(n int64) { c.size = n }'
t "H5 change an error text" C16 controller/control.go 's/Size can only be increased, not reduced/volume can only grow/'
t "H6 introduce a temporary" C16 controller/control.go 's/^\tc.size = sizeInBytes$/\tnewSize := sizeInBytes\n\tc.size = newSize/'
t "H7 rename a local named in a call-site clause" C12 replica/replica.go 's/\bnewSnapName\b/snapDiskName/g'
t "H8 rename a local in the codec" C15 rpc/wire.go 's/\blength\b/payloadLen/g'
t "H9 rename a local named in a post-condition witness" C04 controller/rebuild.go 's/\bindx\b/upTo/g'
t "H10 rename a loop variable named in call-site clauses" C11 controller/control.go 's/\bop\b/step/g'
t "H11 rename locals of the read loop" C01 replica/diff_disk.go 's/\breadSectors\b/runLen/g; s/\bnewTarget\b/nextIdx/g'
t "H12 rename the clone source variable" C19 sync/sync.go 's/\bfromReplica\b/srcReplica/g'
t "H13 add a statistics counter to a verified loop" C01 replica/extents.go 's|^\t\t\t\tc <- (int64(extent.Logical) + i) / u.d.sectorSize$|\t\t\t\tc <- (int64(extent.Logical) + i) / u.d.sectorSize\n\t\t\t\tsentBlocks++|; s|^\tstart := uint64(0)$|\tstart := uint64(0)\n\tsentBlocks := 0\n\tdefer func() { _ = sentBlocks }()|'
