#!/bin/sh
# Harmless-edit corpus: property-preserving edits of /repo (each applied in a scratch worktree); the property's
# check must stay at exit 0. Run by hand after engine changes: selftest/harmless.sh
cd /verif
t() { echo "== $1"; shift; tools/try_edit.sh "$@" | tail -1; }
t "H1 rename a local named in a loop invariant" C03 controller/control.go 's/\brwReplicaCount\b/rwCnt/g'
t "H2 reorder two independent assignments" C12 replica/replica.go '/^\tinfo.Head = newHeadDisk.Name$/{N;s/\tinfo.Head = newHeadDisk.Name\n\tinfo.Dirty = true/\tinfo.Dirty = true\n\tinfo.Head = newHeadDisk.Name/}'
t "H3 add a log line" C03 controller/control.go 's/^func (c \*Controller) UpdateVolStatus() {/func (c *Controller) UpdateVolStatus() {\n\tlogrus.Debugf("updating volume status")/'
t "H4 extract a helper method" C16 controller/control.go 's/^\tc.size = sizeInBytes$/\tc.setSize(sizeInBytes)/; $a func (c *Controller) setSize(n int64) { c.size = n }'
t "H5 change an error text" C16 controller/control.go 's/Size can only be increased, not reduced/volume can only grow/'
t "H6 introduce a temporary" C16 controller/control.go 's/^\tc.size = sizeInBytes$/\tnewSize := sizeInBytes\n\tc.size = newSize/'
t "H7 rename a local named in a call-site clause" C12 replica/replica.go 's/\bnewSnapName\b/snapDiskName/g'
t "H8 rename a local in the codec" C15 rpc/wire.go 's/\blength\b/payloadLen/g'
