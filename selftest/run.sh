#!/bin/sh
# usage: selftest/run.sh <property-id>
# Must-fail corpus for the thorough tier: every seeded property-breaking change recorded for this property in
# seeded/EXPECTED.json as "detected" is applied to a scratch worktree of /repo's HEAD (never /repo itself) and
# the property's quick check is run there; it must report a violation (exit 1). A change that no longer applies
# to HEAD is skipped. A corpus change that is no longer detected means the machinery has regressed: the
# script prints SELFTEST-REGRESSION and exits 2 (this is not a property violation, no VIOLATION line).
set -u
id=$1
cd /verif || exit 2
[ -f seeded/EXPECTED.json ] || exit 0
ids=$(python3 - "$id" <<'PY'
import json,sys
e=json.load(open('/verif/seeded/EXPECTED.json'))
print(' '.join(k for k,v in sorted(e.items()) if v.get('property')==sys.argv[1] and v.get('detected')))
PY
)
[ -n "$ids" ] || exit 0
W=/var/tmp/selftest.$$
mkdir -p $W
rc=0
n=0
for s in $ids; do
	(
	wt=$W/wt-$s
	git -C /repo worktree add -q --detach $wt HEAD 2>/dev/null || { echo "$s skipped (worktree)" > $W/$s.res; exit 0; }
	if git -C $wt apply /verif/seeded/$s/patch.diff 2>/dev/null; then
		/verif/bin/jv check --repo $wt --property $id --no-evidence > $W/$s.out 2>&1
		echo "$s exit=$?" > $W/$s.res
	else
		echo "$s skipped (patch does not apply to HEAD)" > $W/$s.res
	fi
	git -C /repo worktree remove --force $wt 2>/dev/null
	rm -rf $wt
	) &
	n=$((n+1))
	[ $((n % 4)) -eq 0 ] && wait
done
wait
git -C /repo worktree prune
for s in $ids; do
	r=$(cat $W/$s.res 2>/dev/null)
	case "$r" in
		*exit=1|*skipped*) ;;
		*)
			# one sequential retry: under load a solver may time out on the failing obligation's neighbours
			wt=$W/wt-$s
			if git -C /repo worktree add -q --detach $wt HEAD 2>/dev/null && git -C $wt apply /verif/seeded/$s/patch.diff 2>/dev/null; then
				/verif/bin/jv check --repo $wt --property $id --no-evidence > $W/$s.out 2>&1
				echo "$s exit=$?" > $W/$s.res
			fi
			git -C /repo worktree remove --force $wt 2>/dev/null
			rm -rf $wt
			r=$(cat $W/$s.res 2>/dev/null);;
	esac
	case "$r" in
		*exit=1) echo "selftest: $s detected" >&2;;
		*skipped*) echo "selftest: $r" >&2;;
		*) echo "SELFTEST-REGRESSION property=$id seeded=$s ($r): a corpus change that used to be reported is not reported any more"; rc=2;;
	esac
done
rm -rf $W
exit $rc
