#!/bin/sh
set -e
cd /verif/engine
export GOFLAGS=-mod=mod GOPROXY=off GOSUMDB=off GOTOOLCHAIN=local
mkdir -p /verif/bin
go build -o /verif/bin/jv .
