#!/bin/sh
# usage: smtgoal.sh file.smt2 '<goal term>' : replace the negated goal with a new one and run z3-new
f=$1; g=$2
python3 - "$f" "$g" <<'PY'
import sys,re
s=open(sys.argv[1]).read()
i=s.rindex('(assert (not ')
j=s.index('(check-sat)')
open('/tmp/goal.smt2','w').write(s[:i]+'(assert (not '+sys.argv[2]+'))\n'+s[j:])
PY
timeout 30 z3-new -T:20 /tmp/goal.smt2 | head -1
