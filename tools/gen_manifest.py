#!/usr/bin/env python3
import json, subprocess
props=[json.loads(l) for l in open('/verif/properties.jsonl')]
meta=json.load(open('/verif/spec/properties_meta.json'))
hooks_commits=subprocess.run(['git','-C','/repo','log','--format=%h','--grep=^verif:'],capture_output=True,text=True).stdout.split()
checks=[]; na=[]
for p in props:
    i=p['id']; m=meta.get(i)
    if m and m.get('claimed'):
        checks.append({"property_id":i,"quick_cmd":"./check %s --tier quick"%i,"thorough_cmd":"./check %s --tier thorough"%i,
          "evidence_file":"/verif/evidence/%s.json"%i,"replay_cmd_template":"cat {path}","engine":"jv",
          "level_claimed":{"category":"proof","text":m['text'],"design_ref":"DESIGN.md section 4 (%s)"%i},
          "level_note":m['note']+" Assumed: "+"; ".join(m.get('assumptions',[]) or ["see evidence assumptions"])+". Not decided: "+"; ".join(m.get('not_decided',[]) or ["-"]),
          "technique":"function contracts + loop/lock invariants on the real Go code; VCs generated from /repo's typed AST on every run; z3/cvc5"})
    else:
        na.append({"property_id":i,"reason":(m or {}).get('na_reason',"not built yet (engine under construction); see DESIGN.md section 4")})
man={"version":1,"setup_cmd":"cd /verif && ./setup.sh",
 "hooks":{"guard":"verif","enable":"contracts live in <pkg>/zz_contracts_verif.go (//go:build verif, package clause + //@ comments only); the engine loads /repo with -tags verif","baseline_off_cmd":"cd /repo && go build ./... && go test -vet=off -count=1 ./util/...","source_commits":hooks_commits,"add_only":True},
 "engines":[{"name":"jv","path":"/verif/engine","serves_properties":[c['property_id'] for c in checks],"kind_free_text":"home-grown deductive verifier: contracts as //@ comments, weakest-precondition style symbolic execution over go/ast+go/types of the real functions, SMT discharge (z3 5.1.0, z3 4.8.12, cvc5 1.0.3), counterexample replay via go test -overlay"}],
 "checks":checks,"not_applicable":na,"notes":"see DESIGN.md; known findings in known_findings.json; obligation baseline in obligations.baseline.json"}
json.dump(man,open('/verif/MANIFEST.json','w'),indent=1)
print(len(checks),'checks',len(na),'not applicable')
