#!/bin/sh
# usage: run_all.sh [tier]  -- every property's check on /repo as it is (writes the evidence files); one line per property
cd /verif
t=${1:-quick}
for i in 01 02 03 04 05 06 07 08 09 10 11 12 13 14 15 16 17 18 19; do
	s=$(date +%s)
	./check C$i --tier $t > /var/tmp/run_C$i.log 2>&1
	echo "C$i rc=$? $(( $(date +%s)-s ))s $(grep -c '^VIOLATION' /var/tmp/run_C$i.log) violations"
done
