#!/bin/sh
# usage: seed_any.sh <seeded-id>  -- apply the change to a scratch worktree and run the checks of ALL properties (who notices it at all?)
id=$1
wt=/var/tmp/seedany-$id
git -C /repo worktree add -q --detach $wt HEAD || exit 2
git -C $wt apply /verif/seeded/$id/patch.diff || { echo "patch does not apply"; }
/verif/bin/jv check --repo $wt --property all --no-evidence 2>&1 | grep -E '^(VIOLATION|UNDECIDED|NOT-CHECKED|VACUOUS|stale)' | sed 's/replay=[^ ]*//' | cut -c1-260 | head -${2:-12}
git -C /repo worktree remove --force $wt; rm -rf $wt
