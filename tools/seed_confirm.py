#!/usr/bin/env python3
"""Confirm a seeded change in a scratch worktree of /repo (HEAD): demo passes without the patch,
fails with it, and build + baseline suite pass with it. Usage: seed_confirm.py <inbox-dir> <out-id>"""
import json, os, subprocess, sys, shutil, glob, time
src, outid = sys.argv[1], sys.argv[2]
meta = json.load(open(os.path.join(src, 'meta.json')))
env = dict(os.environ, GOFLAGS='-mod=mod', GOPROXY='off', GOSUMDB='off', GOTOOLCHAIN='local')
wt = '/var/tmp/sw-%s-%d' % (outid, os.getpid())
subprocess.run(['git', '-C', '/repo', 'worktree', 'add', '-q', '--detach', wt, 'HEAD'], check=True)
res = {}
def run(cmd, timeout=600):
    t0 = time.time()
    p = subprocess.run(cmd, shell=True, cwd=wt, env=env, capture_output=True, text=True, timeout=timeout)
    return p.returncode, (p.stdout + p.stderr)[-1500:], time.time() - t0
try:
    demos = [f for f in os.listdir(src) if f.endswith('.go')]
    assert len(demos) == 1, demos
    demo_dst = os.path.join(wt, meta['demo_path'])
    os.makedirs(os.path.dirname(demo_dst), exist_ok=True)
    shutil.copy(os.path.join(src, demos[0]), demo_dst)
    cmd = meta['demo_cmd']
    if '-timeout' not in cmd:
        cmd = cmd.replace('go test', 'go test -timeout 120s', 1)
    rc, out, dt = run(cmd)
    res['demo_without_patch'] = {'rc': rc, 'secs': round(dt, 1), 'tail': out[-400:]}
    ap = subprocess.run(['git', 'apply', os.path.join(os.path.abspath(src), 'patch.diff')], cwd=wt, capture_output=True, text=True)
    res['patch_applies_to_head'] = ap.returncode == 0
    if ap.returncode == 0:
        rc2, out2, dt2 = run(cmd)
        res['demo_with_patch'] = {'rc': rc2, 'secs': round(dt2, 1), 'tail': out2[-600:]}
        rc3, out3, dt3 = run('go build ./... && go test -vet=off -count=1 ./util/...')
        res['suite_with_patch'] = {'rc': rc3, 'tail': out3[-200:]}
        res['confirmed'] = (rc == 0 and rc2 != 0 and rc3 == 0)
    else:
        res['confirmed'] = False
        res['apply_error'] = ap.stderr[-300:]
finally:
    subprocess.run(['git', '-C', '/repo', 'worktree', 'remove', '--force', wt])
    shutil.rmtree(wt, ignore_errors=True)
print(json.dumps({'id': outid, 'confirmed': res.get('confirmed'), 'without': res.get('demo_without_patch', {}).get('rc'), 'with': res.get('demo_with_patch', {}).get('rc'), 'suite': res.get('suite_with_patch', {}).get('rc'), 'applies': res.get('patch_applies_to_head')}))
if res.get('confirmed'):
    dst = os.path.join('/verif/seeded', outid)
    os.makedirs(dst, exist_ok=True)
    shutil.copy(os.path.join(src, 'patch.diff'), dst)
    shutil.copy(os.path.join(src, demos[0]), dst)
    meta['confirmation'] = res
    meta['breaks_property'] = meta.get('property')
    meta['demo_file'] = demos[0]
    json.dump(meta, open(os.path.join(dst, 'meta.json'), 'w'), indent=1)
else:
    json.dump(res, open('/var/tmp/%s.failed.json' % outid, 'w'), indent=1)
