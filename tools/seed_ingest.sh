#!/bin/sh
# usage: seed_ingest.sh <round-tag> <first-number>  -- confirm every finished /tmp/seedwt/<Cnn>-<tag>/out/{1,2} as <Cnn>-m<first>, m<first+1>
# (skips ids that already exist), then run the property check on each new one
tag=$1; first=$2
cd /verif
new=""
for d in /tmp/seedwt/*-$tag; do
	p=$(basename $d | cut -d- -f1)
	for k in 1 2; do
		n=$((first + k - 1)); id=$p-m$n
		[ -f $d/out/$k/meta.json ] || continue
		[ -d seeded/$id ] && continue
		python3 tools/seed_confirm.py $d/out/$k $id 2>&1 | tail -1
		[ -d seeded/$id ] && new="$new $id"
	done
done
for id in $new; do tools/seed_all.sh "$id" >/dev/null 2>&1; grep "^| $id " seeded/RESULTS.md | cut -c1-220; done
