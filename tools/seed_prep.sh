#!/bin/sh
# usage: seed_prep.sh <id>   -- scratch copy of /repo's HEAD for a seeding sub-agent: /tmp/seedwt/<id>/repo is a
# stand-alone git repository (no history, no contract files, nothing from /verif); the agent leaves patch.diff,
# demo_test.go and meta.json in /tmp/seedwt/<id>/out. Remove with: rm -rf /tmp/seedwt/<id>
set -e
id=$1
d=/tmp/seedwt/$id
rm -rf $d
mkdir -p $d/repo $d/out
git -C /repo archive HEAD | tar -x -C $d/repo
find $d/repo -name 'zz_contracts_verif.go' -delete
cd $d/repo
git init -q
git add -A
git -c user.name=scratch -c user.email=s@x commit -qm "scratch copy"
echo $d
