#!/bin/sh
# usage: seed_run.sh <seeded-id> [property]  -- apply the seeded change to /repo, run the check, undo
d=/verif/seeded/$1
p=${2:-$(python3 -c "import json;print(json.load(open('$d/meta.json'))['property'])")}
cd /repo || exit 2
if ! git diff --quiet; then echo "/repo has local changes"; exit 2; fi
git apply $d/patch.diff || { echo "patch does not apply"; exit 2; }
cd /verif && bin/jv check --property $p --no-evidence > /tmp/seed_run.out 2>&1; rc=$?
cd /repo && git checkout -- . 
echo "$1 property=$p exit=$rc $(grep -c '^VIOLATION' /tmp/seed_run.out) violations: $(grep -o 'obligation=[^ ]*' /tmp/seed_run.out | sed 's/obligation=//' | sort -u | head -4 | tr '\n' ' ')"
exit 0
