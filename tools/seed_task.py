#!/usr/bin/env python3
"""usage: seed_task.py <property-id> <round-tag>  -- prepare /tmp/seedwt/<id>-<tag>/ (scratch repo + TASK.md) for a seeding sub-agent"""
import json, os, subprocess, sys, glob
pid, tag = sys.argv[1], sys.argv[2]
sid = '%s-%s' % (pid, tag)
d = subprocess.check_output(['/verif/tools/seed_prep.sh', sid], text=True).strip()
prop = None
for l in open('/verif/properties.jsonl'):
    p = json.loads(l)
    if p['id'] == pid:
        prop = p
prev = []
for m in sorted(glob.glob('/verif/seeded/%s-m*/meta.json' % pid)):
    s = json.load(open(m))['summary']
    prev.append('- ' + s[:160].replace('\n', ' '))
task = f"""# Task: seed one realistic property-breaking change into openebs/jiva

You work ONLY inside `{d}/repo` (a scratch git copy of openebs/jiva, a Go iSCSI block-storage controller that
synchronously replicates writes to replicas storing sparse-file snapshot chains). Do not read or write anything under
/verif or /repo. Every shell call needs: `export GOFLAGS=-mod=mod GOPROXY=off GOSUMDB=off GOTOOLCHAIN=local` (no network; the
module cache is complete). The replica package's tests need `-tags debug`.

## The property (this is all you are told)

```json
{json.dumps(prop, indent=1)}
```

## What to produce

TWO different changes (in two different functions, of two different kinds) to the Go sources of openebs/jiva, each of which
* breaks the property above (some input / schedule / crash point / history now violates it),
* still compiles (`go build ./...`) and still passes the existing pinned test suite (`go test -vet=off -count=1 ./util/...`),
* looks like a plausible edit a developer could make (a refactoring slip, a wrong comparison, a dropped or reordered
  step, an off-by-one, a misplaced error check, a condition that is slightly too weak/strong, two cooperating sites that
  each look fine alone) - not sabotage, no new files, no dead code, small (1-15 changed lines),
* needs something SPECIFIC to manifest: a particular interleaving, a crash or fault at a particular point, a multi-step
  sequence of operations, an unusual input, or two cooperating sites - NOT something ordinary use would expose at once,
* sits in code the property depends on; helper functions and glue that the anchors do not name are welcome.

Sites already used by earlier rounds - choose DIFFERENT functions/lines than these:
{chr(10).join(prev) if prev else '(none)'}

For each change also write a demonstration: ONE Go test file (in-package `_test.go`, name it `zz_demo_<x>_test.go`, unique helper
names) that PASSES on the unchanged code and FAILS with the change. Keep it fast (< 60 s) and deterministic.

## Deliverables (exactly these files)

For change k in {{1,2}} write into `{d}/out/k/`:
* `patch.diff` - `git diff` of the source change only (NOT the demo test), relative to the repo root, appliable with `git apply`;
* `demo_test.go` - the demo test file;
* `meta.json` - {{"property": "{pid}", "summary": "<file, function, what was changed and why it breaks the property>",
  "needs_to_manifest": "<what specific input/sequence/fault/interleaving is needed>", "demo_path": "<repo-relative path where
  demo_test.go must be placed, e.g. controller/zz_demo_x_test.go>", "demo_cmd": "<the exact go test command, run from the
  repo root, incl. -vet=off -count=1 -timeout 120s -run '^TestName$' ./pkg>", "ran": "<what you ran and what you saw>"}}

Before finishing, verify yourself for each change: demo passes without the patch; with the patch the demo fails, `go build ./...`
succeeds and `go test -vet=off -count=1 ./util/...` passes. Then restore the scratch repo (`git checkout -- . && git clean -fd`).
Your final message: two lines, one per change, `<k>: <file>:<function> - <one sentence>`.
"""
open(os.path.join(d, 'TASK.md'), 'w').write(task)
print(d)
