#!/bin/sh
# usage: try_edit.sh <property> <file> <sed-expr> : apply an edit in a scratch worktree, build, run check there
p=$1; f=$2; e=$3
wt=/var/tmp/tryedit.$$
git -C /repo worktree add -q --detach $wt HEAD || exit 2
export GOFLAGS=-mod=mod GOPROXY=off GOSUMDB=off GOTOOLCHAIN=local
( cd $wt && sed -i "$e" $f && git diff --stat | tail -1 && go build ./... 2>&1 | head -3 )
/verif/bin/jv check --repo $wt --property $p --no-evidence 2>&1 | grep -v "^KNOWN" | cut -c1-260 | tail -4
git -C /repo worktree remove --force $wt; rm -rf $wt; git -C /repo worktree prune
